package gen

import (
	"math"
	"strconv"
	"strings"
)

// Term is a program of the harness's own term language. Sugar is a rendering choice (Not) of a
// call; Group is explicit.
type Term struct {
	Op     string   `json:"op"`              // num str bool time var list map obj call sub mem group
	N      float64  `json:"n,omitempty"`     // num value
	Text   string   `json:"text,omitempty"`  // literal text override (num forms, raw strings, time literal body)
	S      string   `json:"s,omitempty"`     // str value
	B      bool     `json:"b,omitempty"`     // bool value
	Name   string   `json:"name,omitempty"`  // var / callee / field name
	Args   []*Term  `json:"args,omitempty"`  // elems | k0,v0,k1,v1… | field values | call args | [var,idx] | [obj] | [e]
	Fields []string `json:"fields,omitempty"`
	Not    string   `json:"not,omitempty"` // call notation: "" f(a,b) | infix | prefix | method | ternary
}

func NumT(n float64) *Term            { return &Term{Op: "num", N: n} }
func NumText(text string, n float64) *Term { return &Term{Op: "num", N: n, Text: text} }
func StrT(s string) *Term             { return &Term{Op: "str", S: s} }
func BoolT(b bool) *Term              { return &Term{Op: "bool", B: b} }
func TimeT(body string) *Term         { return &Term{Op: "time", Text: body} }
func VarT(name string) *Term          { return &Term{Op: "var", Name: name} }
func ListT(els ...*Term) *Term        { return &Term{Op: "list", Args: els} }
func MapT(kvs ...*Term) *Term         { return &Term{Op: "map", Args: kvs} }
func GroupT(e *Term) *Term            { return &Term{Op: "group", Args: []*Term{e}} }
func SubT(v, i *Term) *Term           { return &Term{Op: "sub", Args: []*Term{v, i}} }
func MemT(o *Term, f string) *Term    { return &Term{Op: "mem", Name: f, Args: []*Term{o}} }
func CallT(f string, as ...*Term) *Term { return &Term{Op: "call", Name: f, Args: as} }
func Infix(op string, a, b *Term) *Term { return &Term{Op: "call", Name: op, Args: []*Term{a, b}, Not: "infix"} }
func Prefix(op string, a *Term) *Term { return &Term{Op: "call", Name: op, Args: []*Term{a}, Not: "prefix"} }
func Method(f string, recv *Term, as ...*Term) *Term {
	return &Term{Op: "call", Name: f, Args: append([]*Term{recv}, as...), Not: "method"}
}
func Ternary(c, a, b *Term) *Term { return &Term{Op: "call", Name: "if", Args: []*Term{c, a, b}, Not: "ternary"} }
func DCallT(callee *Term, as ...*Term) *Term {
	return &Term{Op: "dcall", Args: append([]*Term{callee}, as...)}
}
func ObjT(names []string, vals ...*Term) *Term {
	return &Term{Op: "obj", Fields: names, Args: vals}
}

// Neg renders negative numbers the only way the language can write them: unary minus.
func Neg(n float64) *Term { return Prefix("-", NumT(n)) }

// NumAtom gives a term for any finite double.
func NumAtom(n float64) *Term {
	if n < 0 || (n == 0 && math.Signbit(n)) {
		return Neg(-n)
	}
	return NumT(n)
}

// Depth of the term tree (atoms 0).
func (t *Term) Depth() int {
	d := 0
	for _, a := range t.Args {
		if x := a.Depth() + 1; x > d {
			d = x
		}
	}
	return d
}

// Size counts nodes.
func (t *Term) Size() int {
	n := 1
	for _, a := range t.Args {
		n += a.Size()
	}
	return n
}

// FmtNum renders a non-negative finite double as a literal the lexer accepts and that parses back
// to exactly the same double.
func FmtNum(n float64) string {
	if n == math.Trunc(n) && n < 1e15 {
		return strconv.FormatFloat(n, 'f', 0, 64)
	}
	s := strconv.FormatFloat(n, 'g', -1, 64)
	// lexer float grammar: digits[.digits](e[+-]digits); 'g' may give "1e+300" or "5e-07": both accepted
	return s
}

// QuoteStr renders a string literal with the escapes the lexer and strconv.Unquote agree on.
func QuoteStr(s string) string {
	var b strings.Builder
	b.WriteByte('"')
	for _, r := range s {
		switch r {
		case '"':
			b.WriteString(`\"`)
		case '\\':
			b.WriteString(`\\`)
		case '\n':
			b.WriteString(`\n`)
		case '\t':
			b.WriteString(`\t`)
		case '\r':
			b.WriteString(`\r`)
		default:
			b.WriteRune(r)
		}
	}
	b.WriteByte('"')
	return b.String()
}

// Render produces source text with every operator application parenthesised (so the text does not
// depend on any precedence table) — the notation of each call is kept.
func (t *Term) Render() string {
	var b strings.Builder
	t.render(&b)
	return b.String()
}

func (t *Term) render(b *strings.Builder) {
	switch t.Op {
	case "num":
		if t.Text != "" {
			b.WriteString(t.Text)
		} else {
			b.WriteString(FmtNum(t.N))
		}
	case "str":
		if t.Text != "" {
			b.WriteString(t.Text)
		} else {
			b.WriteString(QuoteStr(t.S))
		}
	case "bool":
		if t.B {
			b.WriteString("true")
		} else {
			b.WriteString("false")
		}
	case "time":
		b.WriteString("'" + t.Text + "'")
	case "var":
		b.WriteString(t.Name)
	case "list":
		b.WriteByte('[')
		for i, a := range t.Args {
			if i > 0 {
				b.WriteString(", ")
			}
			a.render(b)
		}
		b.WriteByte(']')
	case "map":
		if len(t.Args) == 0 {
			b.WriteString("[:]")
			return
		}
		b.WriteByte('[')
		for i := 0; i+1 < len(t.Args); i += 2 {
			if i > 0 {
				b.WriteString(", ")
			}
			t.Args[i].render(b)
			b.WriteString(": ")
			t.Args[i+1].render(b)
		}
		b.WriteByte(']')
	case "obj":
		b.WriteByte('{')
		for i, a := range t.Args {
			if i > 0 {
				b.WriteString(", ")
			}
			b.WriteString(t.Fields[i])
			b.WriteString(": ")
			a.render(b)
		}
		b.WriteByte('}')
	case "group":
		b.WriteByte('(')
		t.Args[0].render(b)
		b.WriteByte(')')
	case "sub":
		t.Args[0].renderPrimary(b)
		b.WriteByte('[')
		t.Args[1].render(b)
		b.WriteByte(']')
	case "mem":
		t.Args[0].renderPrimary(b)
		b.WriteByte('.')
		b.WriteString(t.Name)
	case "dcall":
		// a call whose callee is an arbitrary expression
		switch t.Args[0].Op {
		case "var", "group", "sub", "dcall", "call", "mem":
			if t.Args[0].Op == "call" && t.Args[0].Not != "" && t.Args[0].Not != "method" {
				b.WriteByte('(')
				t.Args[0].render(b)
				b.WriteByte(')')
			} else {
				t.Args[0].render(b)
			}
		default:
			b.WriteByte('(')
			t.Args[0].render(b)
			b.WriteByte(')')
		}
		b.WriteByte('(')
		for i, a := range t.Args[1:] {
			if i > 0 {
				b.WriteString(", ")
			}
			a.render(b)
		}
		b.WriteByte(')')
	case "call":
		switch t.Not {
		case "infix":
			b.WriteByte('(')
			t.Args[0].render(b)
			b.WriteString(" " + t.Name + " ")
			t.Args[1].render(b)
			b.WriteByte(')')
		case "prefix":
			b.WriteByte('(')
			b.WriteString(t.Name)
			if isWord(t.Name) {
				b.WriteByte(' ')
			}
			t.Args[0].render(b)
			b.WriteByte(')')
		case "ternary":
			b.WriteByte('(')
			t.Args[0].render(b)
			b.WriteString(" ? ")
			t.Args[1].render(b)
			b.WriteString(" : ")
			t.Args[2].render(b)
			b.WriteByte(')')
		case "method":
			t.Args[0].renderPrimary(b)
			b.WriteByte('.')
			b.WriteString(t.Name)
			b.WriteByte('(')
			for i, a := range t.Args[1:] {
				if i > 0 {
					b.WriteString(", ")
				}
				a.render(b)
			}
			b.WriteByte(')')
		default:
			b.WriteString(t.Name)
			b.WriteByte('(')
			for i, a := range t.Args {
				if i > 0 {
					b.WriteString(", ")
				}
				a.render(b)
			}
			b.WriteByte(')')
		}
	}
}

// renderPrimary renders an operand of a postfix form (member / subscript / method receiver): a
// numeric literal directly before '.' would lex as part of a float, so it is grouped.
func (t *Term) renderPrimary(b *strings.Builder) {
	if t.Op == "num" {
		b.WriteByte('(')
		t.render(b)
		b.WriteByte(')')
		return
	}
	t.render(b)
}

func isWord(s string) bool {
	if s == "" {
		return false
	}
	c := s[0]
	return c == '_' || c >= 'a' && c <= 'z' || c >= 'A' && c <= 'Z' || c >= 0x80
}

// Clone deep-copies a term (terms produced by the grammar share sub-term pointers).
func (t *Term) Clone() *Term {
	cp := *t
	cp.Args = make([]*Term, len(t.Args))
	for i, a := range t.Args {
		cp.Args[i] = a.Clone()
	}
	cp.Fields = append([]string(nil), t.Fields...)
	return &cp
}

// OwnCols returns, for a term rendered by Render on a single line, the 0-based rune column that
// positions each variable / call / member / subscript term: an identifier's first rune, the '(' of
// a call written f(…) or o.f(…), the operator token of an operator application, the '?' of a
// conditional, the '.' of a member access, the '[' of a subscript. The term must have unique
// pointers (Clone it first).
func (t *Term) OwnCols() (string, map[*Term]int) {
	cols := map[*Term]int{}
	var b colBuilder
	t.renderCols(&b, cols)
	return b.String(), cols
}

type colBuilder struct {
	strings.Builder
	n int
}

func (b *colBuilder) ws(s string) {
	b.WriteString(s)
	for range s {
		b.n++
	}
}

func (t *Term) renderCols(b *colBuilder, cols map[*Term]int) {
	plain := func(x *Term) { var sb strings.Builder; x.render(&sb); b.ws(sb.String()) }
	primary := func(x *Term) {
		if x.Op == "num" {
			b.ws("(")
			x.renderCols(b, cols)
			b.ws(")")
			return
		}
		x.renderCols(b, cols)
	}
	list := func(xs []*Term) {
		for i, a := range xs {
			if i > 0 {
				b.ws(", ")
			}
			a.renderCols(b, cols)
		}
	}
	switch t.Op {
	case "num", "str", "bool", "time":
		plain(t)
	case "var":
		cols[t] = b.n
		b.ws(t.Name)
	case "list":
		b.ws("[")
		list(t.Args)
		b.ws("]")
	case "map":
		if len(t.Args) == 0 {
			b.ws("[:]")
			return
		}
		b.ws("[")
		for i := 0; i+1 < len(t.Args); i += 2 {
			if i > 0 {
				b.ws(", ")
			}
			t.Args[i].renderCols(b, cols)
			b.ws(": ")
			t.Args[i+1].renderCols(b, cols)
		}
		b.ws("]")
	case "obj":
		b.ws("{")
		for i, a := range t.Args {
			if i > 0 {
				b.ws(", ")
			}
			b.ws(t.Fields[i] + ": ")
			a.renderCols(b, cols)
		}
		b.ws("}")
	case "group":
		b.ws("(")
		t.Args[0].renderCols(b, cols)
		b.ws(")")
	case "sub":
		primary(t.Args[0])
		cols[t] = b.n
		b.ws("[")
		t.Args[1].renderCols(b, cols)
		b.ws("]")
	case "mem":
		primary(t.Args[0])
		cols[t] = b.n
		b.ws("." + t.Name)
	case "call":
		switch t.Not {
		case "infix":
			b.ws("(")
			t.Args[0].renderCols(b, cols)
			b.ws(" ")
			cols[t] = b.n
			b.ws(t.Name + " ")
			t.Args[1].renderCols(b, cols)
			b.ws(")")
		case "prefix":
			b.ws("(")
			cols[t] = b.n
			b.ws(t.Name)
			if isWord(t.Name) {
				b.ws(" ")
			}
			t.Args[0].renderCols(b, cols)
			b.ws(")")
		case "ternary":
			b.ws("(")
			t.Args[0].renderCols(b, cols)
			b.ws(" ")
			cols[t] = b.n
			b.ws("? ")
			t.Args[1].renderCols(b, cols)
			b.ws(" : ")
			t.Args[2].renderCols(b, cols)
			b.ws(")")
		case "method":
			primary(t.Args[0])
			b.ws("." + t.Name)
			cols[t] = b.n
			b.ws("(")
			list(t.Args[1:])
			b.ws(")")
		default:
			b.ws(t.Name)
			cols[t] = b.n
			b.ws("(")
			list(t.Args)
			b.ws(")")
		}
	default:
		plain(t)
	}
}
