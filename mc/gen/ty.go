// Package gen holds the harness's own descriptions of types, values and programs (the alphabets)
// and their enumerators. Nothing here imports the code under test.
package gen

import (
	"sort"
	"strings"
)

type K int

const (
	KNum K = iota
	KStr
	KBool
	KTime
	KBot
	KTop
	KVar
	KList
	KMap
	KObj
	KFun
	KMaybe
	KTuple
)

// Ty is a type description. Object fields keep the order in which they were written.
type Ty struct {
	K      K         `json:"k"`
	Name   string    `json:"name,omitempty"` // variable / function name
	El     *Ty       `json:"el,omitempty"`   // list element, optional payload
	Key    *Ty       `json:"key,omitempty"`
	Val    *Ty       `json:"val,omitempty"`
	Fields []FieldTy `json:"fields,omitempty"`
	Params []*Ty     `json:"params,omitempty"` // function parameters / tuple members
	Ret    *Ty       `json:"ret,omitempty"`
}

type FieldTy struct {
	Name string `json:"name"`
	T    *Ty    `json:"t"`
}

var (
	Num  = &Ty{K: KNum}
	Str  = &Ty{K: KStr}
	Bool = &Ty{K: KBool}
	Time = &Ty{K: KTime}
	Bot  = &Ty{K: KBot}
	Top  = &Ty{K: KTop}
)

func Var(name string) *Ty            { return &Ty{K: KVar, Name: name} }
func List(el *Ty) *Ty                { return &Ty{K: KList, El: el} }
func Map(k, v *Ty) *Ty               { return &Ty{K: KMap, Key: k, Val: v} }
func Maybe(el *Ty) *Ty               { return &Ty{K: KMaybe, El: el} }
func Fun(n string, ps []*Ty, r *Ty) *Ty { return &Ty{K: KFun, Name: n, Params: ps, Ret: r} }
func Tuple(ps ...*Ty) *Ty            { return &Ty{K: KTuple, Params: ps} }
func Obj(fs ...FieldTy) *Ty          { return &Ty{K: KObj, Fields: fs} }
func F(name string, t *Ty) FieldTy   { return FieldTy{name, t} }

func (t *Ty) IsPrim() bool { return t.K == KNum || t.K == KStr || t.K == KBool || t.K == KTime }

// String renders with fields in written order (distinguishes field orders).
func (t *Ty) String() string { return t.str(false) }

// Canon renders with fields sorted by name (identifies equal types).
func (t *Ty) Canon() string { return t.str(true) }

func (t *Ty) str(canon bool) string {
	if t == nil {
		return "<nil>"
	}
	switch t.K {
	case KNum:
		return "num"
	case KStr:
		return "str"
	case KBool:
		return "bool"
	case KTime:
		return "time"
	case KBot:
		return "⊥"
	case KTop:
		return "⊤"
	case KVar:
		return "'" + t.Name
	case KList:
		return "list[" + t.El.str(canon) + "]"
	case KMap:
		return "map[" + t.Key.str(canon) + "," + t.Val.str(canon) + "]"
	case KMaybe:
		return "maybe[" + t.El.str(canon) + "]"
	case KObj:
		fs := append([]FieldTy(nil), t.Fields...)
		if canon {
			sort.SliceStable(fs, func(i, j int) bool { return fs[i].Name < fs[j].Name })
		}
		xs := make([]string, len(fs))
		for i, f := range fs {
			xs[i] = f.Name + ":" + f.T.str(canon)
		}
		return "{" + strings.Join(xs, ",") + "}"
	case KFun, KTuple:
		xs := make([]string, len(t.Params))
		for i, p := range t.Params {
			xs[i] = p.str(canon)
		}
		s := "(" + strings.Join(xs, ",") + ")"
		if t.K == KFun {
			return "fun " + t.Name + s + "->" + t.Ret.str(canon)
		}
		return s
	}
	return "?"
}

// Equal is structural identity with object fields compared by name (the language's type equality).
func Equal(a, b *Ty) bool {
	if a == nil || b == nil {
		return a == b
	}
	if a.K != b.K {
		return false
	}
	switch a.K {
	case KVar:
		return a.Name == b.Name
	case KList, KMaybe:
		return Equal(a.El, b.El)
	case KMap:
		return Equal(a.Key, b.Key) && Equal(a.Val, b.Val)
	case KObj:
		if len(a.Fields) != len(b.Fields) {
			return false
		}
		for _, fa := range a.Fields {
			fb := b.Field(fa.Name)
			if fb == nil || !Equal(fa.T, fb) {
				return false
			}
		}
		return true
	case KFun, KTuple:
		if len(a.Params) != len(b.Params) {
			return false
		}
		for i := range a.Params {
			if !Equal(a.Params[i], b.Params[i]) {
				return false
			}
		}
		if a.K == KFun {
			return Equal(a.Ret, b.Ret)
		}
		return true
	}
	return true
}

// Field returns the type of the named field, or nil.
func (t *Ty) Field(name string) *Ty {
	for _, f := range t.Fields {
		if f.Name == name {
			return f.T
		}
	}
	return nil
}

// Children lists the direct component types.
func (t *Ty) Children() []*Ty {
	switch t.K {
	case KList, KMaybe:
		return []*Ty{t.El}
	case KMap:
		return []*Ty{t.Key, t.Val}
	case KObj:
		out := make([]*Ty, len(t.Fields))
		for i, f := range t.Fields {
			out[i] = f.T
		}
		return out
	case KFun:
		return append(append([]*Ty(nil), t.Params...), t.Ret)
	case KTuple:
		return t.Params
	}
	return nil
}

// Ground reports whether no type variable occurs.
func (t *Ty) Ground() bool {
	if t.K == KVar {
		return false
	}
	for _, c := range t.Children() {
		if !c.Ground() {
			return false
		}
	}
	return true
}

// Has reports whether a node of kind k occurs anywhere.
func (t *Ty) Has(k K) bool {
	if t.K == k {
		return true
	}
	for _, c := range t.Children() {
		if c.Has(k) {
			return true
		}
	}
	return false
}

// Occurs reports whether variable name occurs in t.
func (t *Ty) Occurs(name string) bool {
	if t.K == KVar {
		return t.Name == name
	}
	for _, c := range t.Children() {
		if c.Occurs(name) {
			return true
		}
	}
	return false
}

// Subst applies a substitution (one pass; callers iterate when they need the closure).
func (t *Ty) Subst(m map[string]*Ty) *Ty {
	switch t.K {
	case KVar:
		if r, ok := m[t.Name]; ok {
			return r
		}
		return t
	case KList:
		return List(t.El.Subst(m))
	case KMaybe:
		return Maybe(t.El.Subst(m))
	case KMap:
		return Map(t.Key.Subst(m), t.Val.Subst(m))
	case KObj:
		fs := make([]FieldTy, len(t.Fields))
		for i, f := range t.Fields {
			fs[i] = FieldTy{f.Name, f.T.Subst(m)}
		}
		return Obj(fs...)
	case KFun, KTuple:
		ps := make([]*Ty, len(t.Params))
		for i, p := range t.Params {
			ps[i] = p.Subst(m)
		}
		if t.K == KFun {
			return Fun(t.Name, ps, t.Ret.Subst(m))
		}
		return Tuple(ps...)
	}
	return t
}

// Depth of the type tree (atoms = 0).
func (t *Ty) Depth() int {
	d := 0
	for _, c := range t.Children() {
		if x := c.Depth() + 1; x > d {
			d = x
		}
	}
	return d
}
