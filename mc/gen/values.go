package gen

import "math"

// Boundary sets for the built-in grids.

var Pow53 = math.Pow(2, 53)
var Pow63 = math.Pow(2, 63)

// NumsFull: boundary numbers incl. tolerance edges around 1, negative zero, beyond 2^53 / 2^63,
// huge and non-finite.
func NumsFull() []float64 {
	return []float64{0, math.Copysign(0, -1), 1, -1, 0.5, -0.5, 2.5, -2.5, 1.5, 3, 7,
		1 + 0.9e-9, 1 + 1e-9, 1 + 1.1e-9, 1 - 1.1e-9,
		Pow53, Pow53 + 2, Pow63, -Pow63, 1e300, -1e300,
		math.Inf(1), math.Inf(-1), math.NaN()}
}

// NumsSmall: a compact set for wider grids.
func NumsSmall() []float64 { return []float64{0, 1, -1, 0.5, 2, 3} }

func StrsFull() []string {
	return []string{"", "a", "ab", "é日本", "é", "😀", `a"b`, `a\b`, "(", "a+", "^a", "line\nbreak"}
}

func StrsSmall() []string { return []string{"", "a", "é日"} }
