package gen

// Grammar is a monomorphic, type-directed term grammar: atoms per type and productions
// (constructor instances) with fixed parameter and result types. Types are identified up to
// object field order (Canon).
type Grammar struct {
	Atoms map[string][]*Term
	Prods []Prod
	memo  map[string][]*Term
	Types map[string]*Ty
}

// Prod builds a term of type Ret from sub-terms of types Params.
type Prod struct {
	Tag    string
	Ret    *Ty
	Params []*Ty
	Build  func(args []*Term) *Term
}

func NewGrammar() *Grammar {
	return &Grammar{Atoms: map[string][]*Term{}, memo: map[string][]*Term{}, Types: map[string]*Ty{}}
}

func (g *Grammar) Atom(ty *Ty, ts ...*Term) {
	k := ty.Canon()
	g.Types[k] = ty
	g.Atoms[k] = append(g.Atoms[k], ts...)
}

func (g *Grammar) Prod(tag string, ret *Ty, params []*Ty, build func(args []*Term) *Term) {
	g.Types[ret.Canon()] = ret
	g.Prods = append(g.Prods, Prod{tag, ret, params, build})
}

func key(ty *Ty, depth int) string { return ty.Canon() + "#" + string(rune('0'+depth)) }

// Terms materialises every term of type ty with depth <= depth.
func (g *Grammar) Terms(ty *Ty, depth int) []*Term {
	k := key(ty, depth)
	if r, ok := g.memo[k]; ok {
		return r
	}
	var out []*Term
	g.Each(ty, depth, func(t *Term) bool { out = append(out, t); return true })
	g.memo[k] = out
	return out
}

// Count returns the number of terms of type ty with depth <= depth without materialising the top level.
func (g *Grammar) Count(ty *Ty, depth int) int64 {
	c := ty.Canon()
	n := int64(len(g.Atoms[c]))
	if depth == 0 {
		return n
	}
	for _, p := range g.Prods {
		if p.Ret.Canon() != c {
			continue
		}
		m := int64(1)
		for _, pt := range p.Params {
			m *= int64(len(g.Terms(pt, depth-1)))
		}
		n += m
	}
	return n
}

// Each streams every term of type ty with depth <= depth: atoms first, then productions in
// declaration order with an odometer over the materialised sub-term lists (simplest first).
func (g *Grammar) Each(ty *Ty, depth int, yield func(*Term) bool) bool {
	c := ty.Canon()
	for _, a := range g.Atoms[c] {
		if !yield(a) {
			return false
		}
	}
	if depth == 0 {
		return true
	}
	for _, p := range g.Prods {
		if p.Ret.Canon() != c {
			continue
		}
		lists := make([][]*Term, len(p.Params))
		empty := false
		for i, pt := range p.Params {
			lists[i] = g.Terms(pt, depth-1)
			if len(lists[i]) == 0 {
				empty = true
			}
		}
		if empty {
			continue
		}
		idx := make([]int, len(lists))
		for {
			args := make([]*Term, len(lists))
			for i := range lists {
				args[i] = lists[i][idx[i]]
			}
			t := p.Build(args)
			// a production applied to atoms only is also produced at lower depth: skip duplicates
			// by keeping only terms whose depth is exactly reachable here (depth-1 children at most)
			if !yield(t) {
				return false
			}
			// advance odometer (last position fastest)
			j := len(idx) - 1
			for ; j >= 0; j-- {
				idx[j]++
				if idx[j] < len(lists[j]) {
					break
				}
				idx[j] = 0
			}
			if j < 0 {
				break
			}
		}
	}
	return true
}

// EachOneDeep streams the depth-2 terms of type ty in which exactly one operand of the outermost
// constructor is a depth-1 term and all others are atoms: every composition f(…, g(atoms…), …).
func (g *Grammar) EachOneDeep(ty *Ty, yield func(*Term) bool) bool {
	c := ty.Canon()
	for _, p := range g.Prods {
		if p.Ret.Canon() != c {
			continue
		}
		for pos := range p.Params {
			lists := make([][]*Term, len(p.Params))
			empty := false
			for i, pt := range p.Params {
				if i == pos {
					// Terms lists the atoms first: everything after them was built by a production
					lists[i] = g.Terms(pt, 1)[len(g.Atoms[pt.Canon()]):]
				} else {
					lists[i] = g.Atoms[pt.Canon()]
				}
				if len(lists[i]) == 0 {
					empty = true
				}
			}
			if empty {
				continue
			}
			idx := make([]int, len(lists))
			for {
				args := make([]*Term, len(lists))
				for i := range lists {
					args[i] = lists[i][idx[i]]
				}
				if !yield(p.Build(args)) {
					return false
				}
				j := len(idx) - 1
				for ; j >= 0; j-- {
					idx[j]++
					if idx[j] < len(lists[j]) {
						break
					}
					idx[j] = 0
				}
				if j < 0 {
					break
				}
			}
		}
	}
	return true
}

// EachTwoDeep streams the depth-2 terms of type ty in which exactly TWO operands of the outermost
// constructor (of arity <= maxArity) are depth-1 terms built by a production and all others are
// atoms: every composition f(…, g(atoms…), …, h(atoms…), …).
func (g *Grammar) EachTwoDeep(ty *Ty, maxArity int, yield func(*Term) bool) bool {
	c := ty.Canon()
	for _, p := range g.Prods {
		if p.Ret.Canon() != c || len(p.Params) > maxArity {
			continue
		}
		for p1 := 0; p1 < len(p.Params); p1++ {
			for p2 := p1 + 1; p2 < len(p.Params); p2++ {
				lists := make([][]*Term, len(p.Params))
				empty := false
				for i, pt := range p.Params {
					if i == p1 || i == p2 {
						lists[i] = g.Terms(pt, 1)[len(g.Atoms[pt.Canon()]):]
					} else {
						lists[i] = g.Atoms[pt.Canon()]
					}
					if len(lists[i]) == 0 {
						empty = true
					}
				}
				if empty {
					continue
				}
				idx := make([]int, len(lists))
				for {
					args := make([]*Term, len(lists))
					for i := range lists {
						args[i] = lists[i][idx[i]]
					}
					if !yield(p.Build(args)) {
						return false
					}
					j := len(idx) - 1
					for ; j >= 0; j-- {
						idx[j]++
						if idx[j] < len(lists[j]) {
							break
						}
						idx[j] = 0
					}
					if j < 0 {
						break
					}
				}
			}
		}
	}
	return true
}
