package gen

// Type alphabets for the algebraic laws (C17) and for typing environments.

// Atoms7: the four primitives, ⊥ and two type variables.
func Atoms7() []*Ty { return []*Ty{Num, Str, Bool, Time, Bot, Var("a"), Var("b")} }

// Layer builds every type with exactly one constructor over the given component set:
// list / maybe / map (keys from keyAtoms) / one- and two-field objects over {x, y} in both written
// orders (second field from small) / unary functions (result from small).
func Layer(comps, keyAtoms, small []*Ty) []*Ty {
	var out []*Ty
	for _, c := range comps {
		out = append(out, List(c), Maybe(c), Obj(F("x", c)))
		for _, k := range keyAtoms {
			out = append(out, Map(k, c))
		}
		for _, d := range small {
			out = append(out, Obj(F("x", c), F("y", d)), Obj(F("y", d), F("x", c)))
			out = append(out, Fun("f", []*Ty{c}, d))
		}
	}
	return out
}

// Depth1All: all types of depth <= 1 over Atoms7 (width <= 2).
func Depth1All() []*Ty {
	a := Atoms7()
	return append(append([]*Ty(nil), a...), Layer(a, a, a)...)
}

// Comps19: the reduced component set used below depth-2 constructors.
func Comps19() []*Ty {
	a, b := Var("a"), Var("b")
	return append(Atoms7(),
		List(Num), List(a), List(Bot),
		Map(Str, Num), Map(a, b), Map(Bot, Bot),
		Obj(F("x", Num)), Obj(F("x", a), F("y", Str)), Obj(F("y", Str), F("x", a)),
		Maybe(a), Maybe(Num),
		Fun("f", []*Ty{a}, a),
	)
}

// Depth2Reduced: one constructor over Comps19 (second fields / results from Atoms7).
func Depth2Reduced() []*Ty {
	a := Atoms7()
	return Layer(Comps19(), a, a)
}

// TupleMembers: member types for the outermost argument tuples.
func TupleMembers() []*Ty {
	a, b := Var("a"), Var("b")
	return []*Ty{Num, Str, Bot, a, b, List(a), List(b), List(Num), List(Bot), Map(a, b), Map(Str, Num),
		Maybe(a), Obj(F("x", a), F("y", b)), Obj(F("y", Num), F("x", Str))}
}

// SameTop reports whether two types have the same outermost constructor (used to prune pairs that
// can only fail trivially).
func SameTop(x, y *Ty) bool { return x.K == y.K }
