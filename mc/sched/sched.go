// Package sched is a controlled cooperative scheduler with exhaustive DFS over interleavings
// (iterative preemption bounding) for goroutines that run real library code instrumented with
// github.com/goghcrow/yae/verifhook.
//
// Scheduling points are the synchronisation operations (atomic read-modify-write, lock, unlock);
// plain reads / writes (Touch) never yield — they feed a vector-clock race detector instead. This
// is the CHESS reduction: if no data race exists in any interleaving of the synchronisation
// operations, interleaving at synchronisation operations only is complete.
package sched

import (
	"fmt"
	"sort"
	"strings"

	"github.com/goghcrow/yae/verifhook"
)

// Body is one thread: it runs real API calls and returns its observable outcome.
type Body func() string

// Scenario: fresh state + thread bodies for one execution.
type Scenario struct {
	Name  string
	Build func() []Body // called once per execution: fresh objects every time
}

type access struct {
	kind verifhook.Kind
	obj  interface{}
	site string
}

type thread struct {
	id      int
	resume  chan struct{}
	done    bool
	pending *access // the synchronisation operation it is about to perform
	outcome string
	vc      []int
	panicv  string
}

// Point is one scheduling decision.
type Point struct {
	Enabled []int // canonical order: running thread first if enabled, then ascending ids
	Chosen  int   // index into Enabled
	Running int   // thread that ran before this point (-1 at the start)
}

// Exec is one complete execution.
type Exec struct {
	Points   []Point
	Outcomes []string
	Races    []string
	Trace    []string // thread:site of every synchronisation operation in execution order
	Deadlock bool
}

type objState struct {
	lastWriteT  int
	lastWriteVC []int
	lastWriteAt string
	reads       map[int][]int // thread -> vc at its last read
	readAt      map[int]string
	relVC       []int // released clock (locks / atomics)
	heldBy      int   // lock ownership: thread holding it (-1 none); re-entrant per thread
	depth       int
}

type runner struct {
	threads []*thread
	yield   chan int // thread id that reached a point or finished
	cur     *thread
	objs    map[interface{}]*objState
	races   map[string]bool
	trace   []string
}

func (r *runner) obj(o interface{}) *objState {
	s, ok := r.objs[o]
	if !ok {
		s = &objState{lastWriteT: -1, heldBy: -1, reads: map[int][]int{}, readAt: map[int]string{}}
		r.objs[o] = s
	}
	return s
}

func leq(a, b []int) bool {
	for i := range a {
		if a[i] > b[i] {
			return false
		}
	}
	return true
}

func join(dst, src []int) {
	for i := range src {
		if src[i] > dst[i] {
			dst[i] = src[i]
		}
	}
}

func cp(a []int) []int { return append([]int(nil), a...) }

// onAccess is the verifhook handler body for the running thread.
func (r *runner) onAccess(k verifhook.Kind, o interface{}, site string) {
	t := r.cur
	if t == nil {
		return // set-up code outside the threads
	}
	switch k {
	case verifhook.Read, verifhook.Write:
		s := r.obj(o)
		if s.lastWriteT >= 0 && s.lastWriteT != t.id && !leq(s.lastWriteVC, t.vc) {
			r.races[fmt.Sprintf("%s by thread %d is unordered with the write at %s by thread %d", describe(k, site), t.id, s.lastWriteAt, s.lastWriteT)] = true
		}
		if k == verifhook.Write {
			for ot, rvc := range s.reads {
				if ot != t.id && !leq(rvc, t.vc) {
					r.races[fmt.Sprintf("write at %s by thread %d is unordered with the read at %s by thread %d", site, t.id, s.readAt[ot], ot)] = true
				}
			}
			s.lastWriteT, s.lastWriteVC, s.lastWriteAt = t.id, cp(t.vc), site
			s.reads, s.readAt = map[int][]int{}, map[int]string{}
		} else {
			s.reads[t.id], s.readAt[t.id] = cp(t.vc), site
		}
		t.vc[t.id]++
	default:
		// a synchronisation operation: park until the scheduler picks this thread again
		t.pending = &access{k, o, site}
		r.yield <- t.id
		<-t.resume
		t.pending = nil
		r.trace = append(r.trace, fmt.Sprintf("%d:%s", t.id, site))
		s := r.obj(o)
		switch k {
		case verifhook.Acquire:
			if s.relVC != nil {
				join(t.vc, s.relVC)
			}
			s.heldBy = t.id
			s.depth++
		case verifhook.Release:
			s.relVC = cp(t.vc)
			if s.depth > 0 {
				s.depth--
			}
			if s.depth == 0 {
				s.heldBy = -1
			}
		case verifhook.AtomicRW:
			if s.relVC != nil {
				join(t.vc, s.relVC)
			}
			s.relVC = cp(t.vc)
		}
		t.vc[t.id]++
	}
}

func describe(k verifhook.Kind, site string) string {
	if k == verifhook.Write {
		return "write at " + site
	}
	return "read at " + site
}

// Run executes the scenario once following the choice prefix (then default choices: keep the
// running thread, else the lowest id). A prefix entry outside the enabled set is a hard error.
func Run(sc Scenario, prefix []int) (*Exec, error) {
	bodies := sc.Build()
	n := len(bodies)
	r := &runner{yield: make(chan int), objs: map[interface{}]*objState{}, races: map[string]bool{}}
	for i := 0; i < n; i++ {
		vc := make([]int, n)
		vc[i] = 1
		r.threads = append(r.threads, &thread{id: i, resume: make(chan struct{}), vc: vc})
	}
	verifhook.Handler = r.onAccess
	defer func() { verifhook.Handler = nil }()
	for i, b := range bodies {
		t, b := r.threads[i], b
		go func() {
			<-t.resume
			func() {
				defer func() {
					if p := recover(); p != nil {
						t.panicv = fmt.Sprint(p)
						t.outcome = "PANIC " + t.panicv
					}
				}()
				t.outcome = b()
			}()
			t.done = true
			r.yield <- t.id
		}()
	}
	x := &Exec{}
	running := -1
	for {
		// a thread about to acquire a lock that another thread holds is not enabled
		blocked := func(t *thread) bool {
			if t.pending == nil || t.pending.kind != verifhook.Acquire {
				return false
			}
			s := r.obj(t.pending.obj)
			return s.heldBy >= 0 && s.heldBy != t.id
		}
		var enabled []int
		live := 0
		if running >= 0 && !r.threads[running].done && !blocked(r.threads[running]) {
			enabled = append(enabled, running)
		}
		for _, t := range r.threads {
			if !t.done {
				live++
			}
			if !t.done && t.id != running && !blocked(t) {
				enabled = append(enabled, t.id)
			}
		}
		if len(enabled) == 0 {
			if live > 0 {
				// every live thread waits for a lock: the parked goroutines are abandoned
				x.Deadlock = true
				for _, t := range r.threads {
					if !t.done {
						t.outcome = "DEADLOCK waiting at " + t.pending.site
					}
				}
			}
			break
		}
		choice := 0
		if len(x.Points) < len(prefix) {
			choice = prefix[len(x.Points)]
			if choice < 0 || choice >= len(enabled) {
				return nil, fmt.Errorf("replay diverged at point %d: choice %d of %d enabled threads", len(x.Points), choice, len(enabled))
			}
		}
		x.Points = append(x.Points, Point{Enabled: enabled, Chosen: choice, Running: running})
		next := r.threads[enabled[choice]]
		r.cur = next
		next.resume <- struct{}{}
		<-r.yield // it reached its next synchronisation operation or finished
		r.cur = nil
		running = next.id
	}
	for _, t := range r.threads {
		x.Outcomes = append(x.Outcomes, t.outcome)
	}
	for k := range r.races {
		x.Races = append(x.Races, k)
	}
	sort.Strings(x.Races)
	x.Trace = r.trace
	return x, nil
}

// Stats of one exploration.
type Stats struct {
	Schedules     int
	Points        int
	MaxPoints     int
	BoundComplete int // highest preemption bound fully explored (-1 none)
	Exhausted     bool
	OutcomeVecs   map[string]int
	Capped        bool
}

// Explore enumerates every interleaving of the synchronisation points with at most `bound`
// preemptions (bound < 0 = unbounded), calling check on every execution. It stops early when
// check returns false or when maxSchedules is reached.
func Explore(sc Scenario, bound, maxSchedules int, st *Stats, check func(*Exec, []int) bool) error {
	var rec func(prefix []int) (bool, error)
	rec = func(prefix []int) (bool, error) {
		if maxSchedules > 0 && st.Schedules >= maxSchedules {
			st.Capped = true
			return false, nil
		}
		x, err := Run(sc, prefix)
		if err != nil {
			return false, err
		}
		st.Schedules++
		st.Points += len(x.Points)
		if len(x.Points) > st.MaxPoints {
			st.MaxPoints = len(x.Points)
		}
		st.OutcomeVecs[strings.Join(x.Outcomes, " ‖ ")]++
		choices := make([]int, len(x.Points))
		for i, p := range x.Points {
			choices[i] = p.Chosen
		}
		if !check(x, choices) {
			return false, nil
		}
		pre := 0
		for i, p := range x.Points {
			if i < len(prefix) {
				if p.Chosen != 0 && p.Running >= 0 && p.Enabled[0] == p.Running {
					pre++
				}
				continue
			}
			for alt := 1; alt < len(p.Enabled); alt++ {
				cost := pre
				if p.Running >= 0 && p.Enabled[0] == p.Running {
					cost++ // switching away from a thread that could continue is a preemption
				}
				if bound >= 0 && cost > bound {
					continue
				}
				np := append(append([]int(nil), choices[:i]...), alt)
				ok, err := rec(np)
				if err != nil || !ok {
					return ok, err
				}
			}
			if p.Chosen != 0 && p.Running >= 0 && p.Enabled[0] == p.Running {
				pre++
			}
		}
		return true, nil
	}
	_, err := rec(nil)
	return err
}
