// Package seams owns the nondeterminism the harness has to control:
// Go map-iteration order (runtime overlay), stdout, and deterministic work budgets.
package seams

import (
	"bytes"
	"io"
	"os"
	"sync"
	_ "unsafe" // go:linkname

	"github.com/goghcrow/yae/verifhook"
)

//go:linkname verifMapIterSeed runtime.VerifMapIterSeed
var verifMapIterSeed uint32

// SetMapSeed selects the start offset of every subsequent map iteration (1..8); 0 restores
// the stock random behaviour.
func SetMapSeed(k int) { verifMapIterSeed = uint32(k) }

// MapSeed returns the current seed.
func MapSeed() int { return int(verifMapIterSeed) }

// ---------------------------------------------------------------------------------------------

var stdoutMu sync.Mutex

// CaptureStdout runs f with os.Stdout redirected into a buffer and returns what was written.
func CaptureStdout(f func()) string {
	stdoutMu.Lock()
	defer stdoutMu.Unlock()
	old := os.Stdout
	r, w, err := os.Pipe()
	if err != nil {
		panic(err)
	}
	os.Stdout = w
	done := make(chan string, 1)
	go func() {
		var b bytes.Buffer
		_, _ = io.Copy(&b, r)
		done <- b.String()
	}()
	func() {
		defer func() {
			os.Stdout = old
			_ = w.Close()
		}()
		f()
	}()
	s := <-done
	_ = r.Close()
	return s
}

// ---------------------------------------------------------------------------------------------

// BudgetExceeded is the sentinel panic value raised when a step budget is exhausted.
type BudgetExceeded struct {
	Site  string
	Steps int64
}

// Steps counts verifhook.Step calls per site and can abort deterministically.
type Steps struct {
	Total  int64
	BySite map[string]int64
	Budget int64 // 0 = unlimited
}

// CountSteps runs f while counting Step hooks; when budget>0 and the total exceeds it,
// f is aborted with a BudgetExceeded panic which is caught here (exceeded=true).
func CountSteps(budget int64, f func()) (st Steps, exceeded bool, panicked interface{}) {
	st.BySite = map[string]int64{}
	st.Budget = budget
	verifhook.StepHandler = func(site string) {
		st.Total++
		st.BySite[site]++
		if budget > 0 && st.Total > budget {
			panic(BudgetExceeded{site, st.Total})
		}
	}
	defer func() { verifhook.StepHandler = nil }()
	func() {
		defer func() {
			if r := recover(); r != nil {
				if _, ok := r.(BudgetExceeded); ok {
					exceeded = true
				} else {
					panicked = r
				}
			}
		}()
		f()
	}()
	// the code under test recovers panics itself (API boundary, parser backtracking); once the
	// budget is exceeded every further Step panics again, so the run unwinds quickly, and the
	// verdict is read from the counter, not from who caught the panic.
	if budget > 0 && st.Total > budget {
		exceeded = true
	}
	return
}
