// yaemc: bounded-exhaustive model checker for goghcrow/yae (see /verif/DESIGN.md).
package main

import (
	"flag"
	"fmt"
	"os"

	"verif/mc/engine"
	_ "verif/mc/props"
)

func main() {
	if len(os.Args) < 2 {
		fmt.Fprintln(os.Stderr, "usage: yaemc check|worker|one|replay|list …")
		os.Exit(2)
	}
	switch os.Args[1] {
	case "check":
		fs := flag.NewFlagSet("check", flag.ExitOnError)
		prop := fs.String("prop", "", "property id")
		tier := fs.String("tier", "quick", "quick|thorough")
		_ = fs.Parse(os.Args[2:])
		if t := os.Getenv("VERIF_TIER"); t != "" && !isFlagSet(fs, "tier") {
			*tier = t
		}
		os.Exit(engine.RunCheck(*prop, *tier))
	case "worker", "one":
		fs := flag.NewFlagSet("worker", flag.ExitOnError)
		var o engine.WorkerOpts
		fs.StringVar(&o.Prop, "prop", "", "")
		fs.StringVar(&o.Tier, "tier", "quick", "")
		fs.IntVar(&o.Shard, "shard", 0, "")
		fs.IntVar(&o.N, "n", 1, "")
		fs.Int64Var(&o.Skip, "skip", 0, "")
		fs.Int64Var(&o.Deadline, "deadline", 0, "")
		fs.StringVar(&o.Cursor, "cursor", "", "")
		fs.StringVar(&o.Out, "out", "/dev/stderr", "")
		fs.Int64Var(&o.OnlyIndex, "index", -1, "")
		fs.Int64Var(&o.StopAfter, "stopafter", 0, "")
		_ = fs.Parse(os.Args[2:])
		os.Exit(engine.RunWorker(o))
	case "replay":
		if len(os.Args) < 3 {
			fmt.Fprintln(os.Stderr, "usage: yaemc replay <file>")
			os.Exit(2)
		}
		os.Exit(engine.RunReplay(os.Args[2]))
	case "count":
		// yaemc count <id> <tier>: number of generated cases per family (no execution)
		if len(os.Args) < 4 {
			fmt.Fprintln(os.Stderr, "usage: yaemc count <id> <tier>")
			os.Exit(2)
		}
		d := engine.Lookup(os.Args[2])
		if d == nil {
			fmt.Fprintln(os.Stderr, "unknown property", os.Args[2])
			os.Exit(2)
		}
		engine.CurrentTier = os.Args[3]
		fam := map[string]int{}
		total := 0
		d.Generate(os.Args[3], func(c *engine.Case) bool {
			fam[c.Family]++
			total++
			return true
		})
		for k, v := range fam {
			fmt.Printf("%10d %s\n", v, k)
		}
		fmt.Printf("%10d total\n", total)
	case "list":
		for _, id := range engine.IDs() {
			fmt.Println(id)
		}
	default:
		fmt.Fprintln(os.Stderr, "unknown command", os.Args[1])
		os.Exit(2)
	}
}

func isFlagSet(fs *flag.FlagSet, name string) bool {
	set := false
	fs.Visit(func(f *flag.Flag) {
		if f.Name == name {
			set = true
		}
	})
	return set
}
