// Package engine is the bounded-exhaustive exploration engine: deterministic case enumeration,
// hash-partitioned worker processes, crash attribution, known-finding classification, evidence.
package engine

import (
	"encoding/json"
	"hash/fnv"
)

// Case is one enumerated execution: everything needed to re-run it is inside.
type Case struct {
	Family string          `json:"family"`         // sub-family of the property's alphabet
	Key    string          `json:"key"`            // unique within the property (dedup + sharding)
	Src    string          `json:"src,omitempty"`  // source text, when the case has one
	Args   []string        `json:"args,omitempty"` // small parameters
	Data   json.RawMessage `json:"data,omitempty"` // structured payload (terms, types, histories…)
	// Lazy, when set, produces Data on demand: every worker enumerates every case to find its
	// share, and serialising the payload of the cases it skips dominated large enumerations.
	Lazy func() json.RawMessage `json:"-"`
}

// Payload materialises a lazy payload (idempotent) and returns Data.
func (c *Case) Payload() json.RawMessage {
	if c.Data == nil && c.Lazy != nil {
		c.Data = c.Lazy()
		c.Lazy = nil
	}
	return c.Data
}

// HasPayload: does the case carry structured data (materialised or not)?
func (c *Case) HasPayload() bool { return len(c.Data) > 0 || c.Lazy != nil }

// Violation of the property found while running one case.
type Violation struct {
	Class  string `json:"class"`  // narrow, stable classification (used by KNOWN_FINDINGS matching)
	Detail string `json:"detail"` // what was observed vs expected
}

// Result of running one case.
type Result struct {
	Outcome    string      // canonical observable outcome (for the distinct-outcome count)
	NonTrivial bool        // by the driver's stated rule
	Execs      int         // real executions performed (transitions)
	States     int         // states visited (0 → 1)
	Violations []Violation // empty = property held on this case
}

// Meta describes a driver's tier for the evidence file.
type Meta struct {
	Level       string // exploration | model_checking | …
	Rule        string // how cases are enumerated and what makes one non-trivial
	Bound       string
	Assumptions []string
}

// Driver is one property's alphabet + bound + oracle.
type Driver interface {
	ID() string
	Meta(tier string) Meta
	// Generate enumerates every case of the tier in a deterministic order.
	Generate(tier string, yield func(c *Case) bool)
	// Run executes the case against the real code and judges it.
	Run(c *Case) *Result
}

// Custom drivers (scheduler / history explorers) run the whole exploration themselves.
type CustomDriver interface {
	Driver
	Explore(tier string, seed int64, deadlineSec int) *Report
}

var registry = map[string]Driver{}

func Register(d Driver) { registry[d.ID()] = d }
func Lookup(id string) Driver { return registry[id] }
func IDs() []string {
	var out []string
	for k := range registry {
		out = append(out, k)
	}
	return out
}

func Hash64(parts ...string) uint64 {
	h := fnv.New64a()
	for _, p := range parts {
		_, _ = h.Write([]byte(p))
		_, _ = h.Write([]byte{0})
	}
	return h.Sum64()
}

func (c *Case) Hash() uint64 { return Hash64(c.Family, c.Key) }

func V(class, format string, a ...interface{}) Violation {
	return Violation{Class: class, Detail: sprintf(format, a...)}
}
