package engine

import (
	"bufio"
	"encoding/binary"
	"encoding/json"
	"fmt"
	"os"
	"runtime/debug"
	"sort"
	"sync/atomic"
	"syscall"
	"time"
)

func sprintf(format string, a ...interface{}) string { return fmt.Sprintf(format, a...) }

// WorkerOpts configure one worker process.
type WorkerOpts struct {
	Prop, Tier string
	Shard, N   int
	Skip       int64 // cases of this shard already completed by a previous incarnation
	Deadline   int64 // unix seconds; 0 = none
	Cursor     string
	Out        string
	OnlyIndex  int64 // >=0: run exactly the case with this global enumeration index (crash re-run)
	StopAfter  int64 // >0: stop after the case with this global index (replay of a shard's history)
}

type violRec struct {
	T       string      `json:"t"`
	Idx     int64       `json:"idx"`
	Case    *Case       `json:"case"`
	Viols   []Violation `json:"viols"`
	Outcome string      `json:"outcome"`
}

type sampleRec struct {
	Case    *Case  `json:"case"`
	Outcome string `json:"outcome"`
}

type doneRec struct {
	T            string            `json:"t"`
	Shard        int               `json:"shard"`
	Cases        int64             `json:"cases"`      // distinct cases executed by this incarnation
	Enumerated   int64             `json:"enumerated"` // cases yielded by the generator (all shards)
	Dups         int64             `json:"dups"`
	Execs        int64             `json:"execs"`
	States       int64             `json:"states"`
	NonTrivial   int64             `json:"nontrivial"`
	Violating    int64             `json:"violating"`
	ByClass      map[string]int64  `json:"by_class"`
	ByFamily     map[string]int64  `json:"by_family"`
	Outcomes     []uint64          `json:"outcomes"`
	OutcomesCap  bool              `json:"outcomes_capped"`
	Samples      []sampleRec       `json:"samples"`
	Complete     bool              `json:"complete"` // generator exhausted before the deadline
	SlowestMs    int64             `json:"slowest_ms"`
	SlowestCase  string            `json:"slowest_case"`
	ExtraCounter map[string]int64  `json:"extra,omitempty"`
	Notes        map[string]string `json:"notes,omitempty"`
}

const (
	maxViolPerClass = 40
	maxOutcomes     = 1 << 20
)

// caseWatchdog: how long one real execution may show no sign of life before the worker reports a
// hang. Generous on purpose: the largest single executions (66 000-term programs) take ~10 s on an
// idle machine and have been seen to exceed 90 s on a heavily loaded one.
var caseWatchdog = time.Duration(envIntW("VERIF_WATCHDOG_S", 300)) * time.Second

func envIntW(name string, def int) int {
	if s := os.Getenv(name); s != "" {
		var v int
		if _, err := fmt.Sscan(s, &v); err == nil && v > 0 {
			return v
		}
	}
	return def
}

// watchdog state: unix nano of the start of the current case (or of its last heartbeat), 0 = idle
var started int64
var hbCount uint32

// Heartbeat tells the per-case watchdog that the current case is alive. A case that enumerates a
// sub-space (thousands of real executions) calls it once per execution, so the watchdog bounds one
// real execution, not the size of the case.
func Heartbeat() {
	if atomic.LoadInt64(&started) != 0 {
		atomic.StoreInt64(&started, time.Now().UnixNano())
	}
}

// HeartbeatCheap is Heartbeat for very short executions (reads the clock every 256th call).
func HeartbeatCheap() {
	if atomic.AddUint32(&hbCount, 1)&255 == 0 {
		Heartbeat()
	}
}

// CurrentTier is the tier of the run in progress (drivers whose cases enumerate sub-spaces read it).
var CurrentTier = "quick"

// RunWorker is the body of `yaemc worker`.
func RunWorker(o WorkerOpts) int {
	CurrentTier = o.Tier
	d := Lookup(o.Prop)
	if d == nil {
		fmt.Fprintf(os.Stderr, "unknown property %s\n", o.Prop)
		return 2
	}
	debug.SetGCPercent(200)
	var cur []byte
	if o.Cursor != "" {
		f, err := os.OpenFile(o.Cursor, os.O_RDWR|os.O_CREATE, 0o644)
		if err != nil {
			fmt.Fprintln(os.Stderr, err)
			return 2
		}
		_ = f.Truncate(32)
		cur, err = syscall.Mmap(int(f.Fd()), 0, 32, syscall.PROT_READ|syscall.PROT_WRITE, syscall.MAP_SHARED)
		if err != nil {
			fmt.Fprintln(os.Stderr, err)
			return 2
		}
	}
	outf, err := os.OpenFile(o.Out, os.O_WRONLY|os.O_CREATE|os.O_APPEND, 0o644)
	if err != nil {
		fmt.Fprintln(os.Stderr, err)
		return 2
	}
	w := bufio.NewWriter(outf)
	emit := func(v interface{}) {
		b, _ := json.Marshal(v)
		_, _ = w.Write(b)
		_ = w.WriteByte('\n')
		_ = w.Flush()
	}

	// watchdog: a case that shows no sign of life for caseWatchdog is reported as a hang and the worker exits;
	// the parent re-runs it in isolation before believing it.
	var curIdx int64
	go func() {
		for {
			time.Sleep(2 * time.Second)
			s := atomic.LoadInt64(&started)
			if s != 0 && time.Since(time.Unix(0, s)) > caseWatchdog {
				emit(map[string]interface{}{"t": "hang", "idx": atomic.LoadInt64(&curIdx)})
				os.Exit(3)
			}
		}
	}()

	done := doneRec{T: "done", Shard: o.Shard, ByClass: map[string]int64{}, ByFamily: map[string]int64{}}
	seen := map[uint64]struct{}{}
	outcomes := map[uint64]struct{}{}
	samplesByFamily := map[string]int{}
	var idx, mine int64 = -1, 0
	complete := true
	d.Generate(o.Tier, func(c *Case) bool {
		idx++
		if o.StopAfter > 0 && idx > o.StopAfter {
			return false
		}
		if o.OnlyIndex >= 0 {
			if idx < o.OnlyIndex {
				return true
			}
			if idx > o.OnlyIndex {
				return false
			}
		} else {
			h := c.Hash()
			if int(h%uint64(o.N)) != o.Shard {
				return true
			}
			if _, dup := seen[h]; dup {
				done.Dups++
				return true
			}
			seen[h] = struct{}{}
			mine++
			if mine <= o.Skip {
				return true
			}
			if o.Deadline != 0 && mine&63 == 0 && time.Now().Unix() >= o.Deadline {
				complete = false
				return false
			}
		}
		if cur != nil {
			binary.LittleEndian.PutUint64(cur[0:], uint64(idx))
			binary.LittleEndian.PutUint64(cur[8:], uint64(mine))
			binary.LittleEndian.PutUint64(cur[16:], 1)
		}
		atomic.StoreInt64(&curIdx, idx)
		t0 := time.Now()
		atomic.StoreInt64(&started, t0.UnixNano())
		c.Payload()
		r := d.Run(c)
		atomic.StoreInt64(&started, 0)
		if ms := time.Since(t0).Milliseconds(); ms > done.SlowestMs {
			done.SlowestMs, done.SlowestCase = ms, c.Family+"|"+c.Key
		}
		if cur != nil {
			binary.LittleEndian.PutUint64(cur[16:], 0)
		}
		done.Cases++
		done.ByFamily[c.Family]++
		done.Execs += int64(r.Execs)
		if r.States > 0 {
			done.States += int64(r.States)
		} else {
			done.States++
		}
		if r.NonTrivial {
			done.NonTrivial++
		}
		if len(outcomes) < maxOutcomes {
			outcomes[Hash64(r.Outcome)] = struct{}{}
		} else {
			done.OutcomesCap = true
		}
		if n := samplesByFamily[c.Family]; n < 2 && len(done.Samples) < 24 {
			samplesByFamily[c.Family] = n + 1
			oc := r.Outcome
			if len(oc) > 300 {
				oc = oc[:300] + "…"
			}
			done.Samples = append(done.Samples, sampleRec{c, oc})
		}
		if len(r.Violations) > 0 {
			done.Violating++
			report := false
			for _, v := range r.Violations {
				done.ByClass[v.Class]++
				if done.ByClass[v.Class] <= maxViolPerClass {
					report = true
				}
			}
			if report {
				emit(violRec{"viol", idx, c, r.Violations, r.Outcome})
			}
		}
		if o.OnlyIndex >= 0 {
			emit(map[string]interface{}{"t": "one", "idx": idx, "case": c, "viols": r.Violations, "outcome": r.Outcome})
		}
		return true
	})
	done.Enumerated = idx + 1
	done.Complete = complete
	for h := range outcomes {
		done.Outcomes = append(done.Outcomes, h)
	}
	sort.Slice(done.Outcomes, func(i, j int) bool { return done.Outcomes[i] < done.Outcomes[j] })
	if o.OnlyIndex < 0 {
		emit(done)
	}
	return 0
}

// RunReplay re-executes one stored case without the explorer (`yaemc replay <file>`).
func RunReplay(path string) int {
	b, err := os.ReadFile(path)
	if err != nil {
		fmt.Fprintln(os.Stderr, err)
		return 2
	}
	var rf ReplayFile
	if err := json.Unmarshal(b, &rf); err != nil {
		fmt.Fprintln(os.Stderr, err)
		return 2
	}
	d := Lookup(rf.Property)
	if d == nil {
		fmt.Fprintf(os.Stderr, "unknown property %s\n", rf.Property)
		return 2
	}
	if rf.Tier != "" {
		CurrentTier = rf.Tier
	}
	r := d.Run(rf.Case)
	out := map[string]interface{}{"property": rf.Property, "outcome": r.Outcome, "violations": r.Violations}
	jb, _ := json.MarshalIndent(out, "", " ")
	fmt.Println(string(jb))
	if len(r.Violations) > 0 {
		return 1
	}
	return 0
}

// ReplayFile is what a VIOLATION line points to.
type ReplayFile struct {
	Property   string      `json:"property"`
	Tier       string      `json:"tier"`
	Case       *Case       `json:"case"`
	Violations []Violation `json:"violations"`
	Outcome    string      `json:"outcome"`
	Confirmed  string      `json:"confirmed"`
	HowToRun   string      `json:"how_to_run"`
}
