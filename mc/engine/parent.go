package engine

import (
	"bufio"
	"bytes"
	"encoding/binary"
	"encoding/json"
	"fmt"
	"os"
	"os/exec"
	"path/filepath"
	"regexp"
	"runtime"
	"sort"
	"strconv"
	"strings"
	"sync"
	"time"
)

// Report is the aggregated outcome of one check run.
type Report struct {
	Property    string
	Tier        string
	Seed        int64
	Meta        Meta
	Cases       int64
	Enumerated  int64
	Dups        int64
	Execs       int64
	States      int64
	NonTrivial  int64
	Violating   int64
	ByClass     map[string]int64
	ByFamily    map[string]int64
	Outcomes    map[uint64]struct{}
	OutcomesCap bool
	Samples     []sampleRec
	Exhaustive  bool
	Workers     int
	Crashes     []string
	Unconfirmed []string
	Viols       []violRec
	SlowestMs   int64
	SlowestCase string
	Extra       map[string]interface{}
	WallS       float64
}

func root() string {
	if r := os.Getenv("VERIF_ROOT"); r != "" {
		return r
	}
	return "/verif"
}

func envInt(name string, def int) int {
	if s := os.Getenv(name); s != "" {
		if n, err := strconv.Atoi(s); err == nil {
			return n
		}
	}
	return def
}

// RunCheck is the body of `yaemc check`: explore, classify, write evidence, print verdict lines.
func RunCheck(prop, tier string) int {
	d := Lookup(prop)
	if d == nil {
		fmt.Fprintf(os.Stderr, "unknown property %s (known: %v)\n", prop, IDs())
		return 2
	}
	if tier != "quick" && tier != "thorough" {
		fmt.Fprintf(os.Stderr, "unknown tier %s\n", tier)
		return 2
	}
	seed := int64(envInt("VERIF_SEED", 0))
	deadline := envInt("VERIF_DEADLINE_S", map[string]int{"quick": 420, "thorough": 3000}[tier])
	t0 := time.Now()
	var rep *Report
	if cd, ok := d.(CustomDriver); ok {
		rep = cd.Explore(tier, seed, deadline)
	} else {
		rep = explore(d, tier, seed, deadline)
	}
	rep.Property, rep.Tier, rep.Seed, rep.Meta = prop, tier, seed, d.Meta(tier)
	rep.WallS = time.Since(t0).Seconds()
	return Conclude(rep)
}

func explore(d Driver, tier string, seed int64, deadlineSec int) *Report {
	n := envInt("VERIF_WORKERS", runtime.NumCPU())
	if n > 16 {
		n = 16
	}
	if n < 1 {
		n = 1
	}
	rep := &Report{ByClass: map[string]int64{}, ByFamily: map[string]int64{}, Outcomes: map[uint64]struct{}{}, Exhaustive: true, Workers: n}
	dir := filepath.Join(root(), "build", fmt.Sprintf("run-%s-%s-%d", d.ID(), tier, os.Getpid()))
	_ = os.MkdirAll(dir, 0o755)
	defer os.RemoveAll(dir)
	deadline := time.Now().Unix() + int64(deadlineSec)
	self, _ := os.Executable()
	var mu sync.Mutex
	var wg sync.WaitGroup
	famDead := map[string]int{}
	for i := 0; i < n; i++ {
		wg.Add(1)
		go func(shard int) {
			defer wg.Done()
			// VERIF_SEED only rotates which process handles which hash class: nothing is random.
			hshard := (shard + int(seed%int64(n)) + n) % n
			var skip int64
			for attempt := 0; attempt < 200; attempt++ {
				cursor := filepath.Join(dir, fmt.Sprintf("cursor-%d", shard))
				out := filepath.Join(dir, fmt.Sprintf("out-%d-%d", shard, attempt))
				_ = os.Remove(cursor)
				cmd := exec.Command("/bin/bash", "-c", fmt.Sprintf("ulimit -v %d; exec %q worker -prop %s -tier %s -shard %d -n %d -skip %d -deadline %d -cursor %q -out %q",
					envInt("VERIF_ULIMIT_KB", 12*1024*1024), self, d.ID(), tier, hshard, n, skip, deadline, cursor, out))
				var stderr bytes.Buffer
				cmd.Stderr = &stderr
				cmd.Stdout = nil // the code under test may print; results never travel on stdout
				err := cmd.Run()
				recs, dn := readOut(out)
				mu.Lock()
				for _, v := range recs {
					rep.Viols = append(rep.Viols, v)
				}
				if dn != nil {
					merge(rep, dn)
				}
				mu.Unlock()
				if err == nil && dn != nil {
					return
				}
				// abnormal end: attribute to the case under the cursor, confirm in isolation
				idx, mine, busy := readCursor(cursor)
				tail := lastLines(stderr.String(), 12)
				kind := "crash"
				if bytes.Contains(mustRead(out), []byte(`"t":"hang"`)) {
					kind = "hang"
				}
				if !busy {
					mu.Lock()
					rep.Unconfirmed = append(rep.Unconfirmed, fmt.Sprintf("worker %d ended abnormally outside a case (%v): %s", shard, err, tail))
					rep.Exhaustive = false
					mu.Unlock()
					return
				}
				// once two cases of a family are confirmed dead, further deaths in the same family are
				// believed without the (slow: a hang costs its full watchdog time per re-run) isolation
				var c *Case
				reproduced := 0
				if fc := FindCase(d.ID(), tier, idx); fc != nil {
					mu.Lock()
					known := famDead[fc.Family]
					mu.Unlock()
					if known >= 2 {
						c, reproduced = fc, 3
					}
				}
				if c == nil {
					c, reproduced = confirmCrash(self, d.ID(), tier, idx, dir, shard)
				}
				history := ""
				if reproduced < 3 {
					// alone the case is fine: the death may need the process state left by the preceding
					// cases of this worker — replay the worker's deterministic case sequence up to it, twice
					hits := 0
					for k := 0; k < 2; k++ {
						cur2 := filepath.Join(dir, fmt.Sprintf("hcursor-%d-%d", shard, k))
						out2 := filepath.Join(dir, fmt.Sprintf("hout-%d-%d", shard, k))
						_ = os.Remove(cur2)
						hc := exec.Command("/bin/bash", "-c", fmt.Sprintf("ulimit -v %d; exec %q worker -prop %s -tier %s -shard %d -n %d -stopafter %d -cursor %q -out %q",
							envInt("VERIF_ULIMIT_KB", 12*1024*1024), self, d.ID(), tier, hshard, n, idx, cur2, out2))
						herr := hc.Run()
						i2, _, busy2 := readCursor(cur2)
						_ = os.Remove(out2)
						if herr != nil && busy2 && i2 == idx {
							hits++
						}
					}
					if hits == 2 {
						reproduced = 3
						history = " (not alone, but twice out of twice when the preceding cases of its worker run first)"
						if c == nil {
							c = FindCase(d.ID(), tier, idx)
						}
					}
				}
				mu.Lock()
				if reproduced >= 3 && c != nil {
					famDead[c.Family]++
					rep.Crashes = append(rep.Crashes, fmt.Sprintf("%s idx=%d key=%s", kind, idx, c.Key))
					rep.Viols = append(rep.Viols, violRec{"viol", idx, c, []Violation{{Class: "worker-" + kind, Detail: fmt.Sprintf("worker process died (%d isolated re-runs reproduce%s): %s", reproduced, history, tail)}}, kind})
					rep.ByClass["worker-"+kind]++
					rep.Violating++
				} else {
					rep.Unconfirmed = append(rep.Unconfirmed, fmt.Sprintf("%s at idx=%d reproduced %d/5: %s", kind, idx, reproduced, tail))
					rep.Exhaustive = false
				}
				// the partial incarnation's counters are lost except for what we can reconstruct
				rep.Cases += mine - skip - 1
				mu.Unlock()
				skip = mine // resume after the offending case
			}
		}(i)
	}
	wg.Wait()
	return rep
}

func mustRead(p string) []byte { b, _ := os.ReadFile(p); return b }

func lastLines(s string, n int) string {
	ls := strings.Split(strings.TrimSpace(s), "\n")
	if len(ls) > n {
		ls = ls[:n] // the head of a Go crash report names the fault
	}
	return strings.Join(ls, " | ")
}

func readCursor(p string) (idx, mine int64, busy bool) {
	b, err := os.ReadFile(p)
	if err != nil || len(b) < 24 {
		return 0, 0, false
	}
	return int64(binary.LittleEndian.Uint64(b[0:])), int64(binary.LittleEndian.Uint64(b[8:])), binary.LittleEndian.Uint64(b[16:]) == 1
}

func readOut(p string) (viols []violRec, dn *doneRec) {
	f, err := os.Open(p)
	if err != nil {
		return nil, nil
	}
	defer f.Close()
	sc := bufio.NewScanner(f)
	sc.Buffer(make([]byte, 1<<20), 1<<28)
	for sc.Scan() {
		line := sc.Bytes()
		var head struct {
			T string `json:"t"`
		}
		if json.Unmarshal(line, &head) != nil {
			continue
		}
		switch head.T {
		case "viol":
			var v violRec
			if json.Unmarshal(line, &v) == nil {
				viols = append(viols, v)
			}
		case "done":
			var d doneRec
			if json.Unmarshal(line, &d) == nil {
				dn = &d
			}
		}
	}
	return
}

func merge(rep *Report, d *doneRec) {
	rep.Cases += d.Cases
	if d.Enumerated > rep.Enumerated {
		rep.Enumerated = d.Enumerated
	}
	rep.Dups += d.Dups
	rep.Execs += d.Execs
	rep.States += d.States
	rep.NonTrivial += d.NonTrivial
	rep.Violating += d.Violating
	for k, v := range d.ByClass {
		rep.ByClass[k] += v
	}
	for k, v := range d.ByFamily {
		rep.ByFamily[k] += v
	}
	for _, h := range d.Outcomes {
		rep.Outcomes[h] = struct{}{}
	}
	rep.OutcomesCap = rep.OutcomesCap || d.OutcomesCap
	rep.Samples = append(rep.Samples, d.Samples...)
	if !d.Complete {
		rep.Exhaustive = false
	}
	if d.SlowestMs > rep.SlowestMs {
		rep.SlowestMs, rep.SlowestCase = d.SlowestMs, d.SlowestCase
	}
}

// confirmCrash re-runs the case with global index idx alone, five times.
func confirmCrash(self, prop, tier string, idx int64, dir string, shard int) (*Case, int) {
	var c *Case
	bad := 0
	for k := 0; k < 5; k++ {
		out := filepath.Join(dir, fmt.Sprintf("one-%d-%d-%d", shard, idx, k))
		cmd := exec.Command("/bin/bash", "-c", fmt.Sprintf("ulimit -v %d; exec timeout 1800 %q one -prop %s -tier %s -index %d -out %q",
			envInt("VERIF_ULIMIT_KB", 12*1024*1024), self, prop, tier, idx, out))
		err := cmd.Run()
		b := mustRead(out)
		var one struct {
			T    string `json:"t"`
			Case *Case  `json:"case"`
		}
		for _, line := range bytes.Split(b, []byte("\n")) {
			if json.Unmarshal(line, &one) == nil && one.T == "one" && one.Case != nil {
				c = one.Case
			}
		}
		if err != nil {
			bad++
		}
		if bad >= 3 || (k-bad) >= 3 {
			break // three reproductions confirm it, three clean runs refute it
		}
	}
	if c == nil {
		// the case never completed: recover its description by enumerating without running
		c = FindCase(prop, tier, idx)
	}
	return c, bad
}

// FindCase enumerates up to the given global index.
func FindCase(prop, tier string, idx int64) *Case {
	d := Lookup(prop)
	var found *Case
	var i int64 = -1
	d.Generate(tier, func(c *Case) bool {
		i++
		if i == idx {
			c.Payload()
			cp := *c
			found = &cp
			return false
		}
		return true
	})
	return found
}

// ------------------------------------------------------------------------------------------------
// known findings

type Finding struct {
	Property    string `json:"property"`
	Status      string `json:"status"` // open | fixed
	Class       string `json:"class"`
	DetailRegex string `json:"detail_regex,omitempty"`
	KeyRegex    string `json:"key_regex,omitempty"`
	Commit      string `json:"commit,omitempty"`
	What        string `json:"what"`
	Line        string `json:"line,omitempty"`
}

type findingsFile struct {
	Findings []Finding `json:"findings"`
}

func loadFindings() []Finding {
	b, err := os.ReadFile(filepath.Join(root(), "KNOWN_FINDINGS.json"))
	if err != nil {
		return nil
	}
	var ff findingsFile
	if err := json.Unmarshal(b, &ff); err != nil {
		fmt.Fprintf(os.Stderr, "KNOWN_FINDINGS.json: %v\n", err)
		return nil
	}
	return ff.Findings
}

func (f *Finding) matches(prop string, c *Case, v Violation) bool {
	if f.Status != "open" || f.Property != prop || f.Class != v.Class {
		return false
	}
	if f.DetailRegex != "" {
		if ok, _ := regexp.MatchString(f.DetailRegex, v.Detail); !ok {
			return false
		}
	}
	if f.KeyRegex != "" {
		key := ""
		if c != nil {
			key = c.Family + "|" + c.Key
		}
		if ok, _ := regexp.MatchString(f.KeyRegex, key); !ok {
			return false
		}
	}
	return true
}

// ------------------------------------------------------------------------------------------------

// Conclude classifies violations against KNOWN_FINDINGS.json, confirms new ones by replaying them
// twice in fresh processes, writes the evidence file and prints the verdict lines.
func Conclude(rep *Report) int {
	findings := loadFindings()
	knownHit := map[int]int64{}
	type newViol struct {
		rec violRec
		v   Violation
	}
	var fresh []newViol
	sort.SliceStable(rep.Viols, func(i, j int) bool { return rep.Viols[i].Idx < rep.Viols[j].Idx })
	for _, rec := range rep.Viols {
		for _, v := range rec.Viols {
			matched := false
			for i := range findings {
				if findings[i].matches(rep.Property, rec.Case, v) {
					knownHit[i]++
					matched = true
					break
				}
			}
			if !matched {
				fresh = append(fresh, newViol{rec, v})
			}
		}
	}
	// violations beyond the per-class reporting cap are only counted; attribute them: if a class has
	// un-matched reported members it is fresh anyway; if all reported members matched known findings,
	// the surplus is assumed to be of the same finding only when the finding has no narrower regex.
	self, _ := os.Executable()
	_ = os.MkdirAll(filepath.Join(root(), "replays"), 0o755)
	printed := map[string]int{}
	exit := 0
	var lines []string
	for _, nv := range fresh {
		if printed[nv.v.Class] >= 3 {
			continue
		}
		path := filepath.Join(root(), "replays", fmt.Sprintf("%s-%s-%d.json", rep.Property, sanitize(nv.v.Class), printed[nv.v.Class]))
		rf := ReplayFile{Property: rep.Property, Tier: rep.Tier, Case: nv.rec.Case, Violations: nv.rec.Viols, Outcome: nv.rec.Outcome,
			HowToRun: fmt.Sprintf("%s/build/yaemc replay %s", root(), path)}
		b, _ := json.MarshalIndent(rf, "", " ")
		_ = os.WriteFile(path, b, 0o644)
		conf := "not-replayable"
		if nv.rec.Case != nil && !strings.HasPrefix(nv.v.Class, "worker-") && os.Getenv("VERIF_NO_CONFIRM") == "" {
			o1, e1 := exec.Command(self, "replay", path).Output()
			o2, e2 := exec.Command(self, "replay", path).Output()
			switch {
			case e1 == nil && e2 == nil:
				conf = "did-not-reproduce"
			case bytes.Equal(o1, o2):
				conf = "reproduced-twice-identically"
			default:
				conf = "reproduced-with-differing-observations"
			}
			rf.Confirmed = conf
			b, _ = json.MarshalIndent(rf, "", " ")
			_ = os.WriteFile(path, b, 0o644)
		}
		if conf == "did-not-reproduce" && rep.Workers > 0 && nv.rec.Case != nil {
			// the violation may need the state the worker process had accumulated (a process-wide cache,
			// pool or counter): replay that worker's deterministic case sequence up to this case, twice
			shard := int(nv.rec.Case.Hash() % uint64(rep.Workers))
			hits := 0
			for k := 0; k < 2; k++ {
				out := filepath.Join(root(), "build", fmt.Sprintf("shardreplay-%s-%d-%d", rep.Property, os.Getpid(), k))
				_ = os.Remove(out)
				cmd := exec.Command(self, "worker", "-prop", rep.Property, "-tier", rep.Tier, "-shard", strconv.Itoa(shard), "-n", strconv.Itoa(rep.Workers), "-stopafter", strconv.FormatInt(nv.rec.Idx, 10), "-out", out)
				_ = cmd.Run()
				vs, _ := readOut(out)
				_ = os.Remove(out)
				for _, v := range vs {
					if v.Idx == nv.rec.Idx {
						for _, x := range v.Viols {
							if x.Class == nv.v.Class {
								hits++
								break
							}
						}
					}
				}
			}
			if hits == 2 {
				conf = "reproduced-twice-when-the-worker-history-is-replayed"
				rf.Confirmed = conf
				rf.HowToRun = fmt.Sprintf("%s worker -prop %s -tier %s -shard %d -n %d -stopafter %d -out /dev/stdout   (the violation needs the process state accumulated by the preceding cases of this worker)", self, rep.Property, rep.Tier, shard, rep.Workers, nv.rec.Idx)
				b, _ = json.MarshalIndent(rf, "", " ")
				_ = os.WriteFile(path, b, 0o644)
			}
		}
		if conf == "did-not-reproduce" {
			rep.Unconfirmed = append(rep.Unconfirmed, fmt.Sprintf("violation %s on %s did not reproduce in isolation nor with its worker's history", nv.v.Class, caseKey(nv.rec.Case)))
			rep.Exhaustive = false
			continue
		}
		printed[nv.v.Class]++
		lines = append(lines, fmt.Sprintf("VIOLATION property=%s replay=%s", rep.Property, path))
		fmt.Fprintf(os.Stderr, "  [%s] %s :: %s\n", nv.v.Class, caseKey(nv.rec.Case), trunc(nv.v.Detail, 400))
		exit = 1
	}
	for i, n := range knownHit {
		fmt.Printf("KNOWN-FINDING: property=%s %s (class=%s, %d cases this run)\n", rep.Property, findings[i].What, findings[i].Class, n)
	}
	for _, l := range lines {
		fmt.Println(l)
	}
	writeEvidence(rep, len(fresh), knownHit, findings)
	fmt.Fprintf(os.Stderr, "%s %s: cases=%d execs=%d nontrivial=%d outcomes=%d violating=%d exhaustive=%v wall=%.1fs\n",
		rep.Property, rep.Tier, rep.Cases, rep.Execs, rep.NonTrivial, len(rep.Outcomes), rep.Violating, rep.Exhaustive, rep.WallS)
	for _, u := range rep.Unconfirmed {
		fmt.Fprintf(os.Stderr, "  unconfirmed: %s\n", u)
	}
	return exit
}

func caseKey(c *Case) string {
	if c == nil {
		return "?"
	}
	return c.Family + "|" + trunc(c.Key, 200)
}

func trunc(s string, n int) string {
	if len(s) > n {
		return s[:n] + "…"
	}
	return s
}

func sanitize(s string) string {
	return regexp.MustCompile(`[^A-Za-z0-9_.-]+`).ReplaceAllString(s, "_")
}

func writeEvidence(rep *Report, fresh int, knownHit map[int]int64, findings []Finding) {
	level := rep.Meta.Level
	if level == "" {
		level = "model_checking"
	}
	// samples: keep at most two per family, at most 16 overall, deterministic order
	sort.SliceStable(rep.Samples, func(i, j int) bool {
		a, b := rep.Samples[i].Case, rep.Samples[j].Case
		if a.Family != b.Family {
			return a.Family < b.Family
		}
		return a.Key < b.Key
	})
	var samples []interface{}
	perFam := map[string]int{}
	for _, s := range rep.Samples {
		if perFam[s.Case.Family] >= 2 || len(samples) >= 16 {
			continue
		}
		perFam[s.Case.Family]++
		m := map[string]interface{}{"family": s.Case.Family, "key": trunc(s.Case.Key, 300), "observed": s.Outcome}
		if s.Case.Src != "" {
			m["src"] = trunc(s.Case.Src, 300)
		}
		samples = append(samples, m)
	}
	if len(samples) == 0 {
		samples = append(samples, "no case was executed")
	}
	known := []string{}
	for i, n := range knownHit {
		known = append(known, fmt.Sprintf("%s ×%d", findings[i].What, n))
	}
	sort.Strings(known)
	cov := map[string]interface{}{
		"evaluations":                   rep.Execs,
		"distinct_nontrivial":           rep.NonTrivial,
		"rule":                          rep.Meta.Rule,
		"samples":                       samples,
		"states":                        rep.States,
		"transitions":                   rep.Execs,
		"traces_validated_against_impl": rep.Execs,
		"exhaustive":                    rep.Exhaustive,
		"bound":                         rep.Meta.Bound,
		"cases":                         rep.Cases,
		"cases_enumerated_all_shards":   rep.Enumerated,
		"duplicate_cases_skipped":       rep.Dups,
		"distinct_outcomes":             len(rep.Outcomes),
		"distinct_outcomes_capped":      rep.OutcomesCap,
		"cases_by_family":               rep.ByFamily,
		"violating_cases":               rep.Violating,
		"violations_by_class":           rep.ByClass,
		"new_violations":                fresh,
		"known_findings_hit":            known,
		"worker_processes":              rep.Workers,
		"confirmed_worker_crashes":      rep.Crashes,
		"unconfirmed_events":            rep.Unconfirmed,
		"slowest_case_ms":               rep.SlowestMs,
		"slowest_case":                  trunc(rep.SlowestCase, 200),
		"explanation":                   "every enumerated case was executed on the real packages built from /repo's working tree (-tags verif) and compared with an independent reference; no reference verdict is reported without the matching real execution",
	}
	for k, v := range rep.Extra {
		cov[k] = v
	}
	ev := map[string]interface{}{
		"property_id": rep.Property,
		"tier":        rep.Tier,
		"seed":        rep.Seed,
		"level":       level,
		"coverage":    cov,
		"assumptions": rep.Meta.Assumptions,
		"wall_s":      rep.WallS,
		"violations":  fresh,
	}
	if rep.Meta.Assumptions == nil {
		ev["assumptions"] = []string{}
	}
	b, _ := json.MarshalIndent(ev, "", " ")
	_ = os.MkdirAll(filepath.Join(root(), "evidence"), 0o755)
	_ = os.WriteFile(filepath.Join(root(), "evidence", rep.Property+".json"), append(b, '\n'), 0o644)
}

// AddViolation / AddSample: for custom drivers that run their own exploration.
func (r *Report) AddViolation(c *Case, class, detail string) {
	r.Viols = append(r.Viols, violRec{T: "viol", Idx: int64(len(r.Viols)), Case: c, Viols: []Violation{{Class: class, Detail: detail}}})
}

func (r *Report) AddSample(c *Case, outcome string) {
	r.Samples = append(r.Samples, sampleRec{c, outcome})
}
