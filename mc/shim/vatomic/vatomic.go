//go:build verif

// Package vatomic stands in for sync/atomic in the verification build: the build overlay rewrites
// `import "sync/atomic"` in the repository's (non-test) sources to this package, which lives only
// in the overlay (mapped below <repo>/verifhook/vatomic). Every operation first reports a
// scheduling point to the controlled scheduler (verifhook.Atomic) and then performs the real
// operation, so an exploration interleaves threads between ANY two atomic operations the code
// performs — a read-modify-write split into a load and a store is explored as two steps.
package vatomic

import (
	"sync/atomic"
	"unsafe"

	"github.com/goghcrow/yae/verifhook"
)

func pt(addr interface{}, op string) { verifhook.Atomic(addr, "atomic."+op) }

func AddInt32(addr *int32, delta int32) int32       { pt(addr, "AddInt32"); return atomic.AddInt32(addr, delta) }
func AddInt64(addr *int64, delta int64) int64       { pt(addr, "AddInt64"); return atomic.AddInt64(addr, delta) }
func AddUint32(addr *uint32, delta uint32) uint32   { pt(addr, "AddUint32"); return atomic.AddUint32(addr, delta) }
func AddUint64(addr *uint64, delta uint64) uint64   { pt(addr, "AddUint64"); return atomic.AddUint64(addr, delta) }
func AddUintptr(addr *uintptr, delta uintptr) uintptr { pt(addr, "AddUintptr"); return atomic.AddUintptr(addr, delta) }

func LoadInt32(addr *int32) int32       { pt(addr, "LoadInt32"); return atomic.LoadInt32(addr) }
func LoadInt64(addr *int64) int64       { pt(addr, "LoadInt64"); return atomic.LoadInt64(addr) }
func LoadUint32(addr *uint32) uint32    { pt(addr, "LoadUint32"); return atomic.LoadUint32(addr) }
func LoadUint64(addr *uint64) uint64    { pt(addr, "LoadUint64"); return atomic.LoadUint64(addr) }
func LoadUintptr(addr *uintptr) uintptr { pt(addr, "LoadUintptr"); return atomic.LoadUintptr(addr) }
func LoadPointer(addr *unsafe.Pointer) unsafe.Pointer {
	pt(addr, "LoadPointer")
	return atomic.LoadPointer(addr)
}

func StoreInt32(addr *int32, v int32)       { pt(addr, "StoreInt32"); atomic.StoreInt32(addr, v) }
func StoreInt64(addr *int64, v int64)       { pt(addr, "StoreInt64"); atomic.StoreInt64(addr, v) }
func StoreUint32(addr *uint32, v uint32)    { pt(addr, "StoreUint32"); atomic.StoreUint32(addr, v) }
func StoreUint64(addr *uint64, v uint64)    { pt(addr, "StoreUint64"); atomic.StoreUint64(addr, v) }
func StoreUintptr(addr *uintptr, v uintptr) { pt(addr, "StoreUintptr"); atomic.StoreUintptr(addr, v) }
func StorePointer(addr *unsafe.Pointer, v unsafe.Pointer) {
	pt(addr, "StorePointer")
	atomic.StorePointer(addr, v)
}

func SwapInt32(addr *int32, v int32) int32       { pt(addr, "SwapInt32"); return atomic.SwapInt32(addr, v) }
func SwapInt64(addr *int64, v int64) int64       { pt(addr, "SwapInt64"); return atomic.SwapInt64(addr, v) }
func SwapUint32(addr *uint32, v uint32) uint32   { pt(addr, "SwapUint32"); return atomic.SwapUint32(addr, v) }
func SwapUint64(addr *uint64, v uint64) uint64   { pt(addr, "SwapUint64"); return atomic.SwapUint64(addr, v) }
func SwapUintptr(addr *uintptr, v uintptr) uintptr { pt(addr, "SwapUintptr"); return atomic.SwapUintptr(addr, v) }
func SwapPointer(addr *unsafe.Pointer, v unsafe.Pointer) unsafe.Pointer {
	pt(addr, "SwapPointer")
	return atomic.SwapPointer(addr, v)
}

func CompareAndSwapInt32(addr *int32, o, n int32) bool {
	pt(addr, "CompareAndSwapInt32")
	return atomic.CompareAndSwapInt32(addr, o, n)
}
func CompareAndSwapInt64(addr *int64, o, n int64) bool {
	pt(addr, "CompareAndSwapInt64")
	return atomic.CompareAndSwapInt64(addr, o, n)
}
func CompareAndSwapUint32(addr *uint32, o, n uint32) bool {
	pt(addr, "CompareAndSwapUint32")
	return atomic.CompareAndSwapUint32(addr, o, n)
}
func CompareAndSwapUint64(addr *uint64, o, n uint64) bool {
	pt(addr, "CompareAndSwapUint64")
	return atomic.CompareAndSwapUint64(addr, o, n)
}
func CompareAndSwapUintptr(addr *uintptr, o, n uintptr) bool {
	pt(addr, "CompareAndSwapUintptr")
	return atomic.CompareAndSwapUintptr(addr, o, n)
}
func CompareAndSwapPointer(addr *unsafe.Pointer, o, n unsafe.Pointer) bool {
	pt(addr, "CompareAndSwapPointer")
	return atomic.CompareAndSwapPointer(addr, o, n)
}

func AndInt32(addr *int32, mask int32) int32     { pt(addr, "AndInt32"); return atomic.AndInt32(addr, mask) }
func AndInt64(addr *int64, mask int64) int64     { pt(addr, "AndInt64"); return atomic.AndInt64(addr, mask) }
func AndUint32(addr *uint32, mask uint32) uint32 { pt(addr, "AndUint32"); return atomic.AndUint32(addr, mask) }
func AndUint64(addr *uint64, mask uint64) uint64 { pt(addr, "AndUint64"); return atomic.AndUint64(addr, mask) }
func OrInt32(addr *int32, mask int32) int32      { pt(addr, "OrInt32"); return atomic.OrInt32(addr, mask) }
func OrInt64(addr *int64, mask int64) int64      { pt(addr, "OrInt64"); return atomic.OrInt64(addr, mask) }
func OrUint32(addr *uint32, mask uint32) uint32  { pt(addr, "OrUint32"); return atomic.OrUint32(addr, mask) }
func OrUint64(addr *uint64, mask uint64) uint64  { pt(addr, "OrUint64"); return atomic.OrUint64(addr, mask) }

// ---- typed atomics

type Int32 struct{ v atomic.Int32 }

func (x *Int32) Load() int32           { pt(x, "Int32.Load"); return x.v.Load() }
func (x *Int32) Store(n int32)         { pt(x, "Int32.Store"); x.v.Store(n) }
func (x *Int32) Add(d int32) int32     { pt(x, "Int32.Add"); return x.v.Add(d) }
func (x *Int32) Swap(n int32) int32    { pt(x, "Int32.Swap"); return x.v.Swap(n) }
func (x *Int32) And(m int32) int32     { pt(x, "Int32.And"); return x.v.And(m) }
func (x *Int32) Or(m int32) int32      { pt(x, "Int32.Or"); return x.v.Or(m) }
func (x *Int32) CompareAndSwap(o, n int32) bool {
	pt(x, "Int32.CompareAndSwap")
	return x.v.CompareAndSwap(o, n)
}

type Int64 struct{ v atomic.Int64 }

func (x *Int64) Load() int64        { pt(x, "Int64.Load"); return x.v.Load() }
func (x *Int64) Store(n int64)      { pt(x, "Int64.Store"); x.v.Store(n) }
func (x *Int64) Add(d int64) int64  { pt(x, "Int64.Add"); return x.v.Add(d) }
func (x *Int64) Swap(n int64) int64 { pt(x, "Int64.Swap"); return x.v.Swap(n) }
func (x *Int64) And(m int64) int64  { pt(x, "Int64.And"); return x.v.And(m) }
func (x *Int64) Or(m int64) int64   { pt(x, "Int64.Or"); return x.v.Or(m) }
func (x *Int64) CompareAndSwap(o, n int64) bool {
	pt(x, "Int64.CompareAndSwap")
	return x.v.CompareAndSwap(o, n)
}

type Uint32 struct{ v atomic.Uint32 }

func (x *Uint32) Load() uint32         { pt(x, "Uint32.Load"); return x.v.Load() }
func (x *Uint32) Store(n uint32)       { pt(x, "Uint32.Store"); x.v.Store(n) }
func (x *Uint32) Add(d uint32) uint32  { pt(x, "Uint32.Add"); return x.v.Add(d) }
func (x *Uint32) Swap(n uint32) uint32 { pt(x, "Uint32.Swap"); return x.v.Swap(n) }
func (x *Uint32) And(m uint32) uint32  { pt(x, "Uint32.And"); return x.v.And(m) }
func (x *Uint32) Or(m uint32) uint32   { pt(x, "Uint32.Or"); return x.v.Or(m) }
func (x *Uint32) CompareAndSwap(o, n uint32) bool {
	pt(x, "Uint32.CompareAndSwap")
	return x.v.CompareAndSwap(o, n)
}

type Uint64 struct{ v atomic.Uint64 }

func (x *Uint64) Load() uint64         { pt(x, "Uint64.Load"); return x.v.Load() }
func (x *Uint64) Store(n uint64)       { pt(x, "Uint64.Store"); x.v.Store(n) }
func (x *Uint64) Add(d uint64) uint64  { pt(x, "Uint64.Add"); return x.v.Add(d) }
func (x *Uint64) Swap(n uint64) uint64 { pt(x, "Uint64.Swap"); return x.v.Swap(n) }
func (x *Uint64) And(m uint64) uint64  { pt(x, "Uint64.And"); return x.v.And(m) }
func (x *Uint64) Or(m uint64) uint64   { pt(x, "Uint64.Or"); return x.v.Or(m) }
func (x *Uint64) CompareAndSwap(o, n uint64) bool {
	pt(x, "Uint64.CompareAndSwap")
	return x.v.CompareAndSwap(o, n)
}

type Uintptr struct{ v atomic.Uintptr }

func (x *Uintptr) Load() uintptr          { pt(x, "Uintptr.Load"); return x.v.Load() }
func (x *Uintptr) Store(n uintptr)        { pt(x, "Uintptr.Store"); x.v.Store(n) }
func (x *Uintptr) Add(d uintptr) uintptr  { pt(x, "Uintptr.Add"); return x.v.Add(d) }
func (x *Uintptr) Swap(n uintptr) uintptr { pt(x, "Uintptr.Swap"); return x.v.Swap(n) }
func (x *Uintptr) CompareAndSwap(o, n uintptr) bool {
	pt(x, "Uintptr.CompareAndSwap")
	return x.v.CompareAndSwap(o, n)
}

type Bool struct{ v atomic.Bool }

func (x *Bool) Load() bool       { pt(x, "Bool.Load"); return x.v.Load() }
func (x *Bool) Store(b bool)     { pt(x, "Bool.Store"); x.v.Store(b) }
func (x *Bool) Swap(b bool) bool { pt(x, "Bool.Swap"); return x.v.Swap(b) }
func (x *Bool) CompareAndSwap(o, n bool) bool {
	pt(x, "Bool.CompareAndSwap")
	return x.v.CompareAndSwap(o, n)
}

type Value struct{ v atomic.Value }

func (x *Value) Load() interface{}         { pt(x, "Value.Load"); return x.v.Load() }
func (x *Value) Store(v interface{})       { pt(x, "Value.Store"); x.v.Store(v) }
func (x *Value) Swap(v interface{}) interface{}    { pt(x, "Value.Swap"); return x.v.Swap(v) }
func (x *Value) CompareAndSwap(o, n interface{}) bool {
	pt(x, "Value.CompareAndSwap")
	return x.v.CompareAndSwap(o, n)
}
