//go:build verif

// Package vsync stands in for sync in the verification build (see vatomic): lock operations are
// scheduling points of the controlled scheduler, which also models lock ownership (a thread
// waiting for a held lock is not enabled; no enabled thread = deadlock). sync.Pool is a
// deterministic free list whose operations are scheduling points; everything else is the real sync type.
package vsync

import (
	"sync"

	"github.com/goghcrow/yae/verifhook"
)

type Locker = sync.Locker
type WaitGroup = sync.WaitGroup
type Map = sync.Map
type Cond = sync.Cond

func NewCond(l Locker) *Cond { return sync.NewCond(l) }

type Mutex struct{ m sync.Mutex }

func (m *Mutex) Lock() {
	verifhook.Lock(m, "sync.Mutex.Lock")
	m.m.Lock()
}

func (m *Mutex) Unlock() {
	m.m.Unlock()
	verifhook.Unlock(m, "sync.Mutex.Unlock")
}

func (m *Mutex) TryLock() bool {
	verifhook.Atomic(m, "sync.Mutex.TryLock")
	ok := m.m.TryLock()
	if ok {
		verifhook.Lock(m, "sync.Mutex.TryLock")
	}
	return ok
}

// RWMutex: readers are modelled as exclusive holders too (fewer interleavings of concurrent
// readers are explored; nothing is reported that real executions cannot show).
type RWMutex struct{ m sync.RWMutex }

func (m *RWMutex) Lock()    { verifhook.Lock(m, "sync.RWMutex.Lock"); m.m.Lock() }
func (m *RWMutex) Unlock()  { m.m.Unlock(); verifhook.Unlock(m, "sync.RWMutex.Unlock") }
func (m *RWMutex) RLock()   { verifhook.Lock(m, "sync.RWMutex.RLock"); m.m.RLock() }
func (m *RWMutex) RUnlock() { m.m.RUnlock(); verifhook.Unlock(m, "sync.RWMutex.RUnlock") }
func (m *RWMutex) RLocker() Locker { return rlocker{m} }

type rlocker struct{ m *RWMutex }

func (r rlocker) Lock()   { r.m.RLock() }
func (r rlocker) Unlock() { r.m.RUnlock() }

// Once: the body runs under the once's own lock, as in the real implementation.
type Once struct{ o sync.Once }

func (o *Once) Do(f func()) {
	verifhook.Lock(o, "sync.Once.Do")
	defer verifhook.Unlock(o, "sync.Once.Do")
	o.o.Do(f)
}

func OnceFunc(f func()) func() {
	var o Once
	return func() { o.Do(f) }
}

// Pool: a deterministic LIFO free list (sync.Pool may return any pooled item or none, so this is
// one of its legal behaviours); Get and Put are scheduling points, so two threads that are handed
// the same pooled object are explored.
type Pool struct {
	New   func() interface{}
	mu    sync.Mutex
	items []interface{}
}

func (p *Pool) Get() interface{} {
	verifhook.Atomic(p, "sync.Pool.Get")
	p.mu.Lock()
	var x interface{}
	if n := len(p.items); n > 0 {
		x = p.items[n-1]
		p.items = p.items[:n-1]
	}
	p.mu.Unlock()
	if x == nil && p.New != nil {
		x = p.New()
	}
	return x
}

func (p *Pool) Put(x interface{}) {
	verifhook.Atomic(p, "sync.Pool.Put")
	p.mu.Lock()
	p.items = append(p.items, x)
	p.mu.Unlock()
}
