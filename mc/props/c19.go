package props

import (
	"fmt"
	"strings"

	"github.com/goghcrow/yae"
	yclosure "github.com/goghcrow/yae/closure"
	"github.com/goghcrow/yae/conv"
	"github.com/goghcrow/yae/debug"
	"github.com/goghcrow/yae/val"

	"verif/mc/engine"
	"verif/mc/gen"
	"verif/mc/real"
	"verif/mc/ref"
)

// C19 — debug evaluation reports the same result and the true intermediate values.
type c19 struct{}

func init() { engine.Register(c19{}) }

func (c19) ID() string { return "C19" }

func (c19) Meta(tier string) engine.Meta {
	return engine.Meta{
		Level: "model_checking",
		Rule: "all accepted single-line programs of depth <= 2 with one nested operand (thorough: full depth 2) over the debug alphabet — ASCII and non-ASCII identifiers and strings (incl. strings that render on several lines), numbers, members, subscripts (also failing ones), method calls, list functions over a recorded list variable, infix / prefix operators, conditionals and short-circuit operators with unevaluated branches — in raw and host-map environments, plus 23 hand-built three-level programs (incl. objects whose rendering spans several lines next to wide values). Oracle: Debug returns the value / failure of normal evaluation (VM and closure back ends, and the reference); the record, read through the build-tag hook before rendering, equals the reference evaluator's list of (value, column) for exactly the evaluated variable / call / member / subscript terms in completion order, each at its own term's column (identifier start, '(' of a call, '.' of a member, '[' of a subscript, the operator token, '?'); rendering does not fail, keeps the source as first line, and shows every recorded value at its column on some later line. non-trivial = programs with at least two recorded terms",
		Bound: "depth 2 (one nested operand); 7 variables",
		Assumptions: []string{"no function that evaluates one operand twice is used (the record then shifts columns by design)"},
	}
}

func debugEnv(rep string) real.EnvSpec {
	return real.EnvSpec{Rep: rep, Binds: []real.Binding{
		{Name: "n", V: ref.NumV(2)},
		{Name: "名", V: ref.StrV("é日")},
		{Name: "s", V: ref.StrV("ab")},
		{Name: "nl", V: ref.StrV("x\ny")},
		{Name: "l", V: ref.ListV(gen.Num, nums(1, 2)...)},
		{Name: "m", V: ref.MapV(gen.Str, gen.Num, ref.StrV("k"), ref.NumV(1))},
		{Name: "o", V: oab(1, "x")},
		{Name: "b", V: ref.BoolV(true)},
		{Name: "wide", V: ref.NumV(1000000)},
		{Name: "ow", V: ref.ObjV([]string{"w\nw", "z"}, ref.NumV(1), ref.StrV("q"))},
	}}
}

func debugGrammar() *gen.Grammar {
	g := gen.NewGrammar()
	N, S, B := gen.Num, gen.Str, gen.Bool
	g.Atom(N, gen.NumT(1), gen.NumT(5), gen.VarT("n"))
	g.Atom(S, gen.StrT("é"), gen.VarT("名"), gen.VarT("s"), gen.VarT("nl"))
	g.Atom(B, gen.VarT("b"), gen.BoolT(false))
	g.Atom(tyLNum, gen.VarT("l"))
	g.Atom(tyMSN, gen.VarT("m"))
	g.Atom(tyOAB, gen.VarT("o"))
	bin(g, "+", N, N, N)
	bin(g, "*", N, N, N)
	un(g, "-", N, N)
	fn(g, "len", N, S)
	g.Prod("m-len", N, []*gen.Ty{S}, func(x []*gen.Term) *gen.Term { return gen.Method("len", x[0]) })
	g.Prod("sub-l", N, []*gen.Ty{tyLNum, N}, func(x []*gen.Term) *gen.Term { return gen.SubT(x[0], x[1]) })
	g.Prod("sub-m", N, []*gen.Ty{tyMSN, S}, func(x []*gen.Term) *gen.Term { return gen.SubT(x[0], x[1]) })
	g.Prod("mem-a", N, []*gen.Ty{tyOAB}, func(x []*gen.Term) *gen.Term { return gen.MemT(x[0], "a") })
	fn(g, "if", N, B, N, N)
	g.Prod("?:", N, []*gen.Ty{B, N, N}, func(x []*gen.Term) *gen.Term { return gen.Ternary(x[0], x[1], x[2]) })
	fn(g, "max", N, N, N)
	// functions over a recorded list variable (the record must keep the value the variable HAD)
	fn(g, "max", N, tyLNum)
	fn(g, "min", N, tyLNum)
	fn(g, "len", N, tyLNum)
	g.Prod("m-get", N, []*gen.Ty{tyLNum, N, N}, func(x []*gen.Term) *gen.Term { return gen.Method("get", x[0], x[1], x[2]) })
	bin(g, "==", N, N, B)
	bin(g, "<", N, N, B)
	bin(g, "&&", B, B, B)
	bin(g, "||", B, B, B)
	un(g, "!", B, B)
	fn(g, "isset", B, tyMSN, S)
	bin(g, "==", S, S, B)
	bin(g, "+", S, S, S)
	fn(g, "string", S, N)
	g.Prod("mem-b", S, []*gen.Ty{tyOAB}, func(x []*gen.Term) *gen.Term { return gen.MemT(x[0], "b") })
	g.Prod("map-var-key", N, []*gen.Ty{S, N}, func(x []*gen.Term) *gen.Term { return gen.SubT(gen.MapT(x[0], x[1]), x[0]) })
	g.Prod("list2", tyLNum, []*gen.Ty{N, N}, func(x []*gen.Term) *gen.Term { return gen.ListT(x[0], x[1]) })
	g.Prod("obj", tyOAB, []*gen.Ty{N, S}, func(x []*gen.Term) *gen.Term { return gen.ObjT([]string{"a", "b"}, x[0], x[1]) })
	return g
}

func (c19) Generate(tier string, yield func(*engine.Case) bool) {
	ok := true
	g := debugGrammar()
	for _, rep := range []string{"raw", "map"} {
		env := debugEnv(rep)
		for _, ty := range []*gen.Ty{gen.Num, gen.Bool, gen.Str} {
			emit := func(t *gen.Term) bool {
				if ok && !yield(progCase("debug-"+rep, t, env, rep)) {
					ok = false
				}
				return ok
			}
			if tier == "thorough" {
				g.Each(ty, 2, emit)
			} else {
				g.Each(ty, 1, emit)
				g.EachOneDeep(ty, emit)
			}
		}
	}
	env := debugEnv("raw")
	v, n := gen.VarT, gen.NumT
	for _, t := range []*gen.Term{
		gen.Infix(">", gen.Infix("+", gen.MemT(v("o"), "a"), gen.SubT(v("l"), n(1))), gen.Method("len", gen.StrT("hello"))),
		gen.Infix("+", gen.Infix("+", v("nl"), gen.StrT(" ")), v("名")),
		gen.Ternary(gen.Infix("&&", v("b"), gen.Infix("<", v("n"), n(1))), gen.SubT(v("l"), n(9)), gen.Infix("+", gen.MemT(v("o"), "a"), v("n"))),
		gen.CallT("if", gen.CallT("isset", v("m"), gen.StrT("zz")), gen.SubT(v("m"), gen.StrT("zz")), gen.Method("get", v("l"), v("n"), gen.Prefix("-", v("n")))),
		gen.Infix("||", gen.Infix("==", gen.SubT(v("l"), v("n")), n(1)), v("b")),
		gen.Infix("+", gen.SubT(v("l"), gen.Infix("-", v("n"), n(1))), gen.SubT(gen.ListT(v("n"), gen.MemT(v("o"), "a")), n(0))),
		gen.Infix("==", gen.Infix("+", v("名"), v("名")), gen.Infix("+", gen.StrT("é日"), gen.MemT(v("o"), "b"))),
		gen.MemT(gen.ObjT([]string{"a", "b"}, gen.Infix("*", v("n"), v("n")), v("s")), "a"),
		gen.Infix("&&", gen.Prefix("!", v("b")), gen.Infix("==", gen.SubT(v("l"), n(9)), n(1))),
		gen.CallT("max", gen.CallT("max", v("n"), gen.MemT(v("o"), "a")), gen.Method("len", gen.Infix("+", v("s"), v("名")))),
		gen.SubT(v("m"), gen.Infix("+", gen.StrT("k"), gen.StrT(""))),
		gen.SubT(v("m"), gen.Infix("+", v("s"), gen.StrT("!"))),
		gen.Infix("+", gen.Ternary(v("b"), v("n"), gen.SubT(v("l"), n(9))), gen.Ternary(gen.Prefix("!", v("b")), gen.SubT(v("l"), n(9)), v("n"))),
		gen.CallT("string", gen.ListT(v("n"), gen.Infix("+", v("n"), n(1)))),
		gen.Infix("+", v("nl"), gen.CallT("string", gen.SubT(v("l"), n(0)))),
		gen.Infix("<", gen.Method("len", v("nl")), gen.Method("len", v("名"))),
		v("名"), gen.Infix("+", v("名"), gen.StrT("日本語")),
		gen.Infix("+", v("wide"), gen.CallT("len", gen.ListT(v("ow")))),
		gen.Infix("+", gen.Infix("*", v("wide"), v("wide")), gen.CallT("len", gen.ListT(v("ow"), v("ow")))),
		gen.Infix("==", gen.ListT(v("ow")), gen.ListT(v("ow"))),
		gen.Infix("+", gen.CallT("len", gen.CallT("string", v("ow"))), v("wide")),
		gen.Infix("+", gen.Infix("+", v("wide"), v("n")), gen.CallT("len", gen.ListT(v("ow"), gen.CallT("get", gen.ListT(v("ow")), v("n"), v("ow"))))),
	} {
		if ok && !yield(progCase("debug-deep", t, env, "raw")) {
			ok = false
		}
	}
}

func (c19) Run(c *engine.Case) *engine.Result {
	d := loadProg(c)
	res := &engine.Result{}
	bad := func(class, f string, a ...interface{}) {
		if len(res.Violations) < 6 {
			res.Violations = append(res.Violations, vf(class, f, a...))
		}
	}
	t := d.Term.Clone()
	src, cols := t.OwnCols()
	if src != d.Term.Render() {
		bad("harness-render-mismatch", "%q vs %q", src, d.Term.Render())
		return res
	}
	// reference: value / failure and the expected record
	ck := ref.NewChecker(real.StdHost().RefFuns(), d.Env.Types())
	if _, err := ck.Check(t); err != nil {
		bad("harness-generated-ill-typed", "%s: %s", src, err.Msg)
		return res
	}
	ev := ref.NewEval(ck.Res, d.Env.Values())
	ev.RecOn = true
	wantV, wantF := ev.Run(t)
	res.NonTrivial = len(ev.Rec) >= 2
	// real: debug compile, read the record through the hook before rendering
	e := yae.NewExpr().UseCompiler(yclosure.DebugCompile)
	carg, _ := d.Env.CompileArg()
	var cb yae.Callable
	var err error
	func() {
		defer func() {
			if r := recover(); r != nil {
				err = fmt.Errorf("panic: %v", r)
			}
		}()
		cb, err = e.Compile(src, carg)
	}()
	res.Execs++
	if err != nil {
		bad("debug-compile-failed", "%s: %v", src, err)
		return res
	}
	var venv *val.Env
	if d.Env.Rep == "raw" {
		venv = d.Env.RawValEnv()
	} else {
		hv, _ := d.Env.Host()
		if venv, err = conv.ValEnvOf(hv); err != nil {
			bad("harness-env", "%v", err)
			return res
		}
	}
	rcd := debug.NewRecord()
	venv.Dgb = rcd
	o := &real.Obs{}
	o.Invoke(cb, venv, nil)
	res.Execs++
	entries := rcd.VerifEntries()
	report, rpanic := "", ""
	func() {
		defer func() {
			if r := recover(); r != nil {
				rpanic = fmt.Sprint(r)
			}
		}()
		report = rcd.Render(src)
	}()
	res.Outcome = fmt.Sprintf("%d entries", len(entries))
	// (1) same outcome as normal evaluation
	if o.Panic != "" {
		bad("debug-panic", "%s: debug evaluation panicked: %s", src, stable(o.Panic))
	}
	for _, b := range []real.Backend{real.VMSwitch, real.Closure} {
		no := real.Run(b, nil, src, d.Env)
		res.Execs++
		if (no.RunErr != "") != (o.RunErr != "") {
			bad("debug-outcome-differs", "%s: debug mode ended with error=%q, normal evaluation on %s with error=%q", src, o.RunErr, b, no.RunErr)
		} else if no.Val != nil && o.Val != nil {
			a, _ := real.FromVal(no.Val)
			bb, _ := real.FromVal(o.Val)
			if a == nil || bb == nil || !ref.Same(a, bb) {
				bad("debug-outcome-differs", "%s: debug mode returns %v, normal evaluation on %s returns %v", src, o.Val, b, no.Val)
			}
		}
	}
	if wantF == nil && o.RunErr != "" {
		bad("debug-outcome-differs", "%s: debug mode failed (%s), the semantics define %s", src, stable(o.RunErr), wantV.Describe())
	}
	// (2) the record
	if len(entries) != len(ev.Rec) {
		bad("record-wrong-entries", "%s: %d values recorded %s, %d sub-expressions were evaluated %s", src, len(entries), entriesStr(entries), len(ev.Rec), recStr(ev.Rec, cols))
	} else {
		for i, en := range entries {
			w := ev.Rec[i]
			wcol := cols[w.T] + 1
			gv, gerr := real.FromVal(en.Val)
			if gerr != nil || !ref.Same(gv, w.V) {
				bad("record-wrong-value", "%s: entry %d is %v at column %d, the %d-th evaluated term (%s) has value %s", src, i, en.Val, en.Col, i, w.T.Render(), w.V.Describe())
				break
			}
			if en.Col != wcol {
				bad("record-wrong-column", "%s: value %s of %s is attributed to column %d, the term sits at column %d", src, w.V.Describe(), w.T.Render(), en.Col, wcol)
				break
			}
		}
	}
	// (3) the report
	if rpanic != "" {
		bad("render-panic", "%s: rendering the report panicked: %s", src, stable(rpanic))
		return res
	}
	lines := strings.Split(report, "\n")
	if len(lines) == 0 || lines[0] != src {
		bad("report-first-line", "%s: the report's first line is %q", src, lines[0])
	}
	for _, en := range entries {
		want := strings.Split(strings.ReplaceAll(en.Val.String(), "\r\n", "\n"), "\n")
		found := false
		for li := 2; li < len(lines) && !found; li++ {
			match := true
			for k, w := range want {
				if li+k >= len(lines) {
					match = false
					break
				}
				rs := []rune(lines[li+k])
				wr := []rune(w)
				if en.Col-1+len(wr) > len(rs) || string(rs[en.Col-1:en.Col-1+len(wr)]) != w {
					match = false
					break
				}
			}
			found = match
		}
		if !found {
			bad("report-misses-value", "%s: the recorded value %s (column %d) is not shown at its column in the report:\n%s", src, en.Val, en.Col, report)
			break
		}
	}
	// (5) the same record, cleared, serves a second run of the same closure: same entries
	{
		sig := func(es []debug.VerifEntry) string {
			var xs []string
			for _, en := range es {
				xs = append(xs, fmt.Sprintf("%d:%s", en.Col, en.Val))
			}
			return strings.Join(xs, " ")
		}
		first := sig(entries)
		for round := 2; round <= 3; round++ {
			rcd.Clear()
			o2 := &real.Obs{}
			o2.Invoke(cb, venv, nil)
			res.Execs++
			if again := sig(rcd.VerifEntries()); again != first {
				bad("record-depends-on-history", "%s: run %d with the cleared record gives [%s], the first run gave [%s]", src, round, again, first)
				break
			}
		}
	}
	// (6) white space before the program shifts every column by its width, nothing else
	{
		pad := "  \t "
		src2 := pad + src
		var cb2 yae.Callable
		var err2 error
		func() {
			defer func() {
				if r := recover(); r != nil {
					err2 = fmt.Errorf("panic: %v", r)
				}
			}()
			cb2, err2 = yae.NewExpr().UseCompiler(yclosure.DebugCompile).Compile(src2, carg)
		}()
		res.Execs++
		if err2 != nil {
			bad("debug-compile-failed", "%q (leading white space): %v", src2, err2)
		} else {
			r2 := debug.NewRecord()
			venv.Dgb = r2
			o3 := &real.Obs{}
			o3.Invoke(cb2, venv, nil)
			venv.Dgb = rcd
			res.Execs++
			e2 := r2.VerifEntries()
			if len(e2) != len(entries) {
				bad("record-wrong-entries", "%q: %d entries, without the leading white space %d", src2, len(e2), len(entries))
			} else {
				for i := range e2 {
					if e2[i].Col != entries[i].Col+len([]rune(pad)) {
						bad("record-wrong-column", "%q: entry %d (%s) is attributed to column %d; without the %d leading white-space runes it sits at column %d", src2, i, e2[i].Val, e2[i].Col, len([]rune(pad)), entries[i].Col)
						break
					}
				}
			}
		}
	}
	// (4) yae.Debug itself: same value, same report
	if d.Env.Rep != "raw" {
		hv, _ := d.Env.Host()
		var dv *val.Val
		var drep string
		var derr error
		dpanic := ""
		func() {
			defer func() {
				if r := recover(); r != nil {
					dpanic = fmt.Sprint(r)
				}
			}()
			dv, drep, derr = yae.Debug(src, hv)
		}()
		res.Execs++
		if dpanic != "" {
			bad("debug-panic", "yae.Debug(%s) panicked: %s", src, stable(dpanic))
		} else {
			if (derr != nil) != (o.RunErr != "") {
				bad("debug-outcome-differs", "yae.Debug(%s): error=%v, debug evaluation through the compiler: %q", src, derr, o.RunErr)
			}
			if drep != report {
				bad("debug-report-differs", "yae.Debug(%s) report differs from rendering the same record:\n%s\n---\n%s", src, drep, report)
			}
			_ = dv
		}
	}
	return res
}

func entriesStr(es []debug.VerifEntry) string {
	xs := make([]string, len(es))
	for i, e := range es {
		xs[i] = fmt.Sprintf("%v@%d", e.Val, e.Col)
	}
	return "[" + strings.Join(xs, " ") + "]"
}

func recStr(rs []ref.RecEvent, cols map[*gen.Term]int) string {
	xs := make([]string, len(rs))
	for i, r := range rs {
		xs[i] = fmt.Sprintf("%s=%s@%d", r.T.Render(), r.V.Describe(), cols[r.T]+1)
	}
	return "[" + strings.Join(xs, " ") + "]"
}
