package props

import (
	"fmt"
	"strings"

	"github.com/goghcrow/yae/parser/oper"
	"github.com/goghcrow/yae/parser/token"

	"verif/mc/engine"
	"verif/mc/real"
	"verif/mc/ref"
)

// C09 — tokens partition the input with exact positions and longest-match operators.
type c09 struct{}

func init() { engine.Register(c09{}) }

func (c09) ID() string { return "C09" }

var c09Atoms = []string{"true", "false", "x", "é", "_", "0", "1", "9", "0x", "0b", "e", "E", ".", "+", "-", "<", "=", "<=", "!", "?", ":", ",", "(", "[", "\"", "\\", "`", "'", " ", "\t", "\n", "and", "not", "in", "t", "`\n\n`", "'\n \n'", "\"a\nb\n\"", "ˆ"}

var c09OpSets = map[string][]ref.Op{
	"builtin": nil, // filled from the real built-in table
	"overlap": {{Sym: "<", BP: 6, Fixity: "infixn"}, {Sym: "<=", BP: 6, Fixity: "infixn"}, {Sym: "<=>", BP: 6, Fixity: "infixn"}, {Sym: "=", BP: 5, Fixity: "infixn"}, {Sym: "=>", BP: 5, Fixity: "infixr"}, {Sym: "-", BP: 7, Fixity: "infixl"}, {Sym: "+", BP: 7, Fixity: "infixl"}},
	"dotq":    {{Sym: "..", BP: 7, Fixity: "infixl"}, {Sym: ".^.", BP: 7, Fixity: "infixl"}, {Sym: "?:", BP: 3, Fixity: "infixr"}, {Sym: "??", BP: 3, Fixity: "infixr"}, {Sym: "!", BP: 10, Fixity: "prefix"}, {Sym: "+", BP: 7, Fixity: "infixl"}},
	"words":   {{Sym: "in", BP: 6, Fixity: "infixn"}, {Sym: "int", BP: 10, Fixity: "prefix"}, {Sym: "not", BP: 10, Fixity: "prefix"}, {Sym: "and", BP: 4, Fixity: "infixl"}, {Sym: "t", BP: 11, Fixity: "postfix"}},
	"unicode": {{Sym: "é", BP: 7, Fixity: "infixl"}, {Sym: "éé", BP: 8, Fixity: "infixl"}, {Sym: "x_", BP: 10, Fixity: "prefix"}},
	"empty":   {},
	// the prefix-overlapping symbols declared in two more orders (registration must sort them)
	"overlap-mixed": {{Sym: "=", BP: 5, Fixity: "infixn"}, {Sym: "<", BP: 6, Fixity: "infixn"}, {Sym: "=>", BP: 5, Fixity: "infixr"}, {Sym: "<=>", BP: 6, Fixity: "infixn"}, {Sym: "+", BP: 7, Fixity: "infixl"}, {Sym: "<=", BP: 6, Fixity: "infixn"}, {Sym: "-", BP: 7, Fixity: "infixl"}},
	"overlap-short-first": {{Sym: "<", BP: 6, Fixity: "infixn"}, {Sym: "=", BP: 5, Fixity: "infixn"}, {Sym: "<=", BP: 6, Fixity: "infixn"}, {Sym: "+", BP: 7, Fixity: "infixl"}},
	// pairs of sets whose symbols, written one after the other, give the same text
	"glue-a": {{Sym: "<", BP: 6, Fixity: "infixn"}, {Sym: "==", BP: 5, Fixity: "infixn"}, {Sym: "+", BP: 7, Fixity: "infixl"}},
	"glue-b": {{Sym: "<=", BP: 6, Fixity: "infixn"}, {Sym: "=", BP: 5, Fixity: "infixn"}, {Sym: "+", BP: 7, Fixity: "infixl"}},
	"glue-c": {{Sym: "an", BP: 4, Fixity: "infixl"}, {Sym: "d", BP: 10, Fixity: "prefix"}},
	"glue-d": {{Sym: "and", BP: 4, Fixity: "infixl"}},
	"caret":   {{Sym: "ˆ", BP: 9, Fixity: "infixr"}, {Sym: "ˆˆ", BP: 9, Fixity: "infixr"}, {Sym: ".ˆ.", BP: 7, Fixity: "infixl"}, {Sym: "+ˆ", BP: 7, Fixity: "infixl"}, {Sym: "+", BP: 7, Fixity: "infixl"}},
}

var c09SetOrder = []string{"builtin", "overlap", "dotq", "words", "unicode", "empty", "caret", "overlap-mixed", "overlap-short-first", "glue-a", "glue-b", "glue-c", "glue-d"}

func c09Ops(name string) []ref.Op {
	if name == "builtin" {
		return real.BuiltInOps()
	}
	return c09OpSets[name]
}

func (c09) Meta(tier string) engine.Meta {
	n := 4
	if tier == "thorough" {
		n = 5
	}
	return engine.Meta{
		Level: "model_checking",
		Rule: fmt.Sprintf("all strings of <= %d atoms over the %d-atom mixed alphabet %q, under 13 operator sets (the prefix-overlapping set in three declaration orders; two pairs of sets whose symbols concatenate to the same text: {<, ==} / {<=, =} and {an, d} / {and}; built-in; with the non-ASCII operator character ˆ; prefix-overlapping symbolic < <= <=> = =>; containing . and ? : .. .^. ?: ??; identifier-like with common prefixes in int not and t; non-ASCII identifier-like; empty). A case is one (operator set, first two atoms) pair; its run enumerates every suffix. Oracle: (a) model-free: tokens in source order, no overlap, gaps are white space only, runes[Idx:IdxEnd] == Lexeme, Line / Col recomputed from the text; (b) the token sequence (kind, lexeme, span) equals the hand-written reference scanner's; error iff the reference errors. non-trivial = strings with >= 2 atoms", n, len(c09Atoms), c09Atoms),
		Bound: fmt.Sprintf("%d atoms per string, 13 operator sets", n),
		Assumptions: []string{"the literal grammars of lexer/factory.go (README: 'lexicon: lexer/factory.go') are the documented lexical grammar, re-implemented by hand without regexp", "unicode.IsSpace / IsLetter are shared library code"},
	}
}

func (c09) Generate(tier string, yield func(*engine.Case) bool) {
	for _, set := range c09SetOrder {
		// the empty prefix and single-atom prefixes cover the short strings
		if !yield(&engine.Case{Family: "lex-" + set, Key: "short", Args: []string{set, "short"}}) {
			return
		}
		for _, a := range c09Atoms {
			for _, b := range c09Atoms {
				if !yield(&engine.Case{Family: "lex-" + set, Key: fmt.Sprintf("%q+%q", a, b), Src: a + b, Args: []string{set, a, b}}) {
					return
				}
			}
		}
	}
}

var c09Lexers = map[string]*real.Lexer{}
var c09RealOps = map[string][]oper.Operator{}

func (c09) Run(c *engine.Case) *engine.Result {
	set := c.Args[0]
	ops := c09Ops(set)
	lx := c09Lexers[set]
	if lx == nil {
		c09RealOps[set] = real.ToOps(ops)
		lx = real.NewLexer(c09RealOps[set])
		c09Lexers[set] = lx
	}
	res := &engine.Result{NonTrivial: true}
	depth := 2
	if tier := tierOf(c); tier == "thorough" {
		depth = 3
	}
	outcomes := map[string]int{}
	check := func(s string) {
		engine.HeartbeatCheap()
		res.Execs++
		res.States++
		got := lx.Lex(s)
		want, werr := ref.Lex(s, ops)
		if vs := judgeLex(s, set, got, want, werr); len(vs) > 0 {
			if len(res.Violations) < 6 {
				res.Violations = append(res.Violations, vs...)
			}
		}
		if got.Err != "" {
			outcomes["error"]++
		} else {
			outcomes[fmt.Sprintf("%d tokens", len(got.Toks))]++
		}
	}
	if c.Args[1] == "short" {
		check("")
		for _, a := range c09Atoms {
			check(a)
		}
	} else {
		prefix := c.Args[1] + c.Args[2]
		var rec func(s string, d int)
		rec = func(s string, d int) {
			check(s)
			if d == 0 {
				return
			}
			for _, a := range c09Atoms {
				rec(s+a, d-1)
			}
		}
		rec(prefix, depth)
	}
	res.Outcome = fmt.Sprint(outcomes)
	return res
}

// the tier is not part of a case; thorough cases are marked by the worker through the environment
func tierOf(c *engine.Case) string { return engine.CurrentTier }

func judgeLex(s, set string, got real.LexResult, want []ref.Tok, werr *ref.LexErr) (vs []engine.Violation) {
	rs := []rune(s)
	if got.Err == "" {
		// (a) model-free invariants
		prevEnd := 0
		line, col, at := 0, 0, 0
		for i, t := range got.Toks {
			if t.Idx < prevEnd || t.IdxEnd <= t.Idx || t.IdxEnd > len(rs) {
				vs = append(vs, vf("token-span-invalid", "%q [%s]: token %d %q has span %d-%d (previous token ends at %d, input has %d runes)", s, set, i, t.Lexeme, t.Idx, t.IdxEnd, prevEnd, len(rs)))
				return
			}
			for k := prevEnd; k < t.Idx; k++ {
				if !isSpaceRune(rs[k]) {
					vs = append(vs, vf("token-gap-not-space", "%q [%s]: %q between tokens %d and %d is skipped", s, set, string(rs[prevEnd:t.Idx]), i-1, i))
					return
				}
			}
			if string(rs[t.Idx:t.IdxEnd]) != t.Lexeme {
				vs = append(vs, vf("token-lexeme-mismatch", "%q [%s]: token %d lexeme %q but runes[%d:%d] = %q", s, set, i, t.Lexeme, t.Idx, t.IdxEnd, string(rs[t.Idx:t.IdxEnd])))
				return
			}
			for ; at < t.Idx; at++ {
				if rs[at] == '\n' {
					line++
					col = 0
				} else {
					col++
				}
			}
			if t.Line != line || t.Col != col {
				vs = append(vs, vf("token-position-wrong", "%q [%s]: token %d %q recorded at line %d col %d, the text puts it at line %d col %d", s, set, i, t.Lexeme, t.Line, t.Col, line, col))
				return
			}
			prevEnd = t.IdxEnd
		}
		for k := prevEnd; k < len(rs); k++ {
			if !isSpaceRune(rs[k]) {
				vs = append(vs, vf("token-gap-not-space", "%q [%s]: trailing %q is not covered by any token", s, set, string(rs[prevEnd:])))
				return
			}
		}
	}
	// (b) agreement with the reference scanner
	if (got.Err != "") != (werr != nil) {
		if werr != nil {
			vs = append(vs, vf("lex-accepts-invalid", "%q [%s]: lexed as %s but the lexical grammar has no token at rune %d", s, set, tokStr(got.Toks), werr.Idx))
		} else {
			vs = append(vs, vf("lex-rejects-valid", "%q [%s]: rejected (%s) but the lexical grammar reads %s", s, set, stable(got.Err), refTokStr(want)))
		}
		return
	}
	if got.Err != "" {
		return
	}
	if len(got.Toks) != len(want) {
		vs = append(vs, vf("token-mismatch", "%q [%s]: got %s, the lexical grammar reads %s", s, set, tokStr(got.Toks), refTokStr(want)))
		return
	}
	for i, t := range got.Toks {
		w := want[i]
		if string(t.Kind) != w.Kind || t.Lexeme != w.Lexeme || t.Idx != w.Idx || t.IdxEnd != w.End {
			vs = append(vs, vf("token-mismatch", "%q [%s]: got %s, the lexical grammar reads %s", s, set, tokStr(got.Toks), refTokStr(want)))
			return
		}
	}
	return
}

func isSpaceRune(r rune) bool {
	switch r {
	case ' ', '\t', '\n', '\r', '\v', '\f', 0x85, 0xA0, 0x1680, 0x2028, 0x2029, 0x202f, 0x205f, 0x3000:
		return true
	}
	return r >= 0x2000 && r <= 0x200a
}

func tokStr(ts []*token.Token) string {
	xs := make([]string, len(ts))
	for i, t := range ts {
		xs[i] = fmt.Sprintf("%s‹%s›", kindShort(string(t.Kind)), t.Lexeme)
	}
	return "[" + strings.Join(xs, " ") + "]"
}

func refTokStr(ts []ref.Tok) string {
	xs := make([]string, len(ts))
	for i, t := range ts {
		xs[i] = fmt.Sprintf("%s‹%s›", kindShort(t.Kind), t.Lexeme)
	}
	return "[" + strings.Join(xs, " ") + "]"
}

func kindShort(k string) string {
	switch k {
	case "<num>":
		return "N"
	case "<str>":
		return "S"
	case "<time>":
		return "T"
	case "<sym>":
		return "I"
	}
	return "op"
}
