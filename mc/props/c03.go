package props

import (
	"encoding/json"
	"fmt"
	"strings"

	"github.com/goghcrow/yae/types"
	"github.com/goghcrow/yae/val"

	"verif/mc/engine"
	"verif/mc/gen"
	"verif/mc/real"
	"verif/mc/ref"
)

// C03 — all execution back ends are observationally equivalent.
type c03 struct{}

func init() { engine.Register(c03{}) }

func (c03) ID() string { return "C03" }

func (c03) Meta(tier string) engine.Meta {
	return engine.Meta{
		Level: "model_checking",
		Rule: "the union of the program corpora of C01 (objects), C02 (partial operations, size families), C04 (grids, literal forms, compositions) and C06 (effects, nested lazies), plus targeted families: dynamic calls through function-typed values and one compiled expression invoked along every history of <= 3 environments drawn from 3 variants, map literals with duplicate / numerically equal keys, 255 and 256 call arguments, > 42 stack slots inside thunks, conditionals whose branches exceed 255 and 65535 bytes, > 255 constants inside thunk bodies; every accepted program is run on the four back ends (bytecode VM switch loop, call-threaded loop through the hook, closure compiler, AST interpreter) with user-registered strict / lazy / polymorphic functions present. Oracle: pairwise equal outcome class, structurally equal value (own reader) and identical ordered host-call trace; a compile-time refusal is accepted only from the VM and only as its capacity assertion. non-trivial = every case (four executions compared)",
		Bound: "as the source corpora (depth 2 / one nested operand in quick, full depth 2 in thorough)",
		Assumptions: []string{"no reference model is involved: the four implementations are compared with each other on every case"},
	}
}

type srcData struct {
	Env  real.EnvSpec `json:"env"`
	Host string       `json:"host,omitempty"`
}

func srcCase(family, key, src string, env real.EnvSpec, host string) *engine.Case {
	b, _ := json.Marshal(srcData{env, host})
	return &engine.Case{Family: family, Key: key, Src: src, Args: []string{"src"}, Data: b}
}

// wideHost registers wide255 / wide256 :: num^N -> num (sum of the arguments, traced).
func wideHost() *real.Host {
	h := real.StdHost()
	for _, n := range []int{255, 256} {
		n := n
		ps := make([]*types.Type, n)
		gps := make([]*gen.Ty, n)
		for i := range ps {
			ps[i] = types.Num
			gps[i] = gen.Num
		}
		name := fmt.Sprintf("wide%d", n)
		h.Sigs = append(h.Sigs, &ref.Sig{Name: name, Params: gps, Ret: gen.Num, Host: true,
			Impl: func(ev *ref.Eval, x []*ref.V) (*ref.V, *ref.Fail) {
				s := 0.0
				for _, a := range x {
					s += a.N
				}
				ev.Trace = append(ev.Trace, fmt.Sprintf("%s(%v)", name, s))
				return ref.NumV(s), nil
			}})
		h.Vals = append(h.Vals, val.Fun(types.Fun(name, ps, types.Num), func(x ...*val.Val) *val.Val {
			s := 0.0
			for _, a := range x {
				s += a.Num().V
			}
			*h.Trace = append(*h.Trace, fmt.Sprintf("%s(%v)", name, s))
			return val.Num(s)
		}))
	}
	return h
}

func repStr(s string, n int, sep string) string {
	xs := make([]string, n)
	for i := range xs {
		xs[i] = s
	}
	return strings.Join(xs, sep)
}

func (c03) Generate(tier string, yield func(*engine.Case) bool) {
	ok := true
	emit := func(c *engine.Case) {
		if ok && !yield(c) {
			ok = false
		}
	}
	// ---- targeted families first (simplest counterexamples first)
	none := real.EnvSpec{Rep: "raw"}
	for _, m := range []string{
		`["a":1,"a":2]`, `["a":1,"b":2,"a":3]`, `[1:"x",1.0:"y"]`, `[1:"x",1.0000000001:"y"]`, `[true:1,true:2,false:3]`,
		`[0.5:1,0.50:2]`, `["a":tr(1,1),"a":tr(2,2)]`, `[tr(1,"k"):tr(2,1),tr(3,"k"):tr(4,2)]`,
	} {
		for _, wrap := range []string{"%s", "len(%s)", "string(%s)", "%s == %s"} {
			src := strings.ReplaceAll(wrap, "%s", m)
			emit(srcCase("dupkeys", src, src, none, ""))
		}
	}
	emit(srcCase("dupkeys", `["a":1,"a":2]["a"]`, `["a":1,"a":2]["a"]`, none, ""))
	// string literals spelled like the variable, field and function names of the same program
	{
		nenv := real.EnvSpec{Rep: "raw", Binds: []real.Binding{{Name: "name", V: ref.StrV("v")}, {Name: "n", V: ref.NumV(3)}, {Name: "s", V: ref.StrV("s")}, {Name: "id", V: ref.NumV(4)}}}
		for _, src := range []string{
			`name == "name"`, `"name" + name`, `name + "name"`, `if(n > 0, {id: n}.id, len("id"))`, `if(n < 0, {id: n}.id, len("id"))`, `{s: s}.s + "s"`,
			`["name": name]["name"]`, `len("len") + len(name)`, `"n" + string(n)`, `{name: name, n: n}.name + "n"`, `["tr": tr(1, "tr")]["tr"]`,
			`string({id: "id"})`, `id + len("id") + {id: id}.id`, `{a: "a", b: "b"}.b + "a"`, `["s", s, "name", name]`, `{n: "n"}.n == "n" && n == 3`,
		} {
			emit(srcCase("name-collisions", src, src, nenv, ""))
		}
	}
	emit(srcCase("dupkeys", `[1:"x",1.0:"y"][1]`, `[1:"x",1.0:"y"][1]`, none, ""))
	for _, n := range []int{254, 255, 256} {
		name := "wide255"
		if n == 256 {
			name = "wide256"
		}
		if n == 254 {
			continue
		}
		src := name + "(" + repStr("1", n, ",") + ")"
		emit(srcCase("wide-args", fmt.Sprintf("%d", n), src, none, "wide"))
		emit(srcCase("wide-args", fmt.Sprintf("%d-lazy", n), "if(true,"+src+",0)", none, "wide"))
	}
	sizes := []int{43, 85, 86, 300, 3000}
	if tier == "thorough" {
		sizes = append(sizes, 16000, 22000, 66000)
	}
	for _, n := range sizes {
		sum := repStr("1", n, "+")
		nest := repStr("1+(", n-1, "") + "1" + repStr(")", n-1, "")
		for _, c := range []string{"true", "false"} {
			emit(srcCase("long-branch", fmt.Sprintf("then-%d-%s", n, c), "if("+c+","+sum+",0)", none, ""))
			emit(srcCase("long-branch", fmt.Sprintf("else-%d-%s", n, c), "if("+c+",0,"+sum+")", none, ""))
			emit(srcCase("long-branch", fmt.Sprintf("and-%d-%s", n, c), c+" && ("+sum+" == "+fmt.Sprint(n)+")", none, ""))
			if n <= 22000 {
				// (two 66 000-term branches are one 132 000-term program: the front end's quadratic
				// passes then need minutes on a loaded machine, which the watchdog reported as a hang)
				emit(srcCase("long-branch", fmt.Sprintf("both-%d-%s", n, c), "if("+c+","+sum+","+sum+"+1)", none, ""))
			}
		}
		if n <= 3000 {
			emit(srcCase("thunk-stack", fmt.Sprintf("second-%d", n), "second(0,"+nest+")", none, ""))
			emit(srcCase("thunk-stack", fmt.Sprintf("twice-%d", n), "twice(tr(1,"+nest+"))", none, ""))
			emit(srcCase("thunk-stack", fmt.Sprintf("thunk-in-thunk-%d", n), "second(0,second(0,twice("+nest+")))", none, ""))
		}
		emit(srcCase("thunk-consts", fmt.Sprintf("second-list-%d", n), "len(second(0,["+repStr("1", n, ",")+"]))", none, ""))
	}
	dynCases(emit)
	// ---- the other properties' corpora
	sub := func(prefix string, d engine.Driver, keep func(c *engine.Case) bool) {
		if !ok {
			return
		}
		d.Generate(tier, func(c *engine.Case) bool {
			if keep != nil && !keep(c) {
				return true
			}
			if !c.HasPayload() {
				// families with their own runner: the wide literals are taken over as plain programs
				if len(c.Args) == 3 && c.Args[0] == "wide" {
					var n int
					fmt.Sscan(c.Args[2], &n)
					w := progCase(prefix+"/"+c.Family, c01WideTerm(c.Args[1], n), real.EnvSpec{Rep: "raw"}, c.Key)
					w.Key = c.Key
					emit(w)
				}
				return ok
			}
			cp := *c
			cp.Family = prefix + "/" + c.Family
			emit(&cp)
			return ok
		})
	}
	sub("c06", c06{}, nil)
	sub("c02", c02{}, nil)
	sub("c01", c01{}, func(c *engine.Case) bool { return !strings.Contains(c.Family, "-map") })
	sub("c04", c04{}, func(c *engine.Case) bool { return c.Family != "grid-hostmap" })
}

func (c03) Run(c *engine.Case) *engine.Result {
	if len(c.Args) > 0 && c.Args[0] == "dyn" {
		return runDyn(c)
	}
	res := &engine.Result{NonTrivial: true}
	var p *ProgObs
	if len(c.Args) > 0 && c.Args[0] == "src" {
		var d srcData
		if len(c.Data) > 0 {
			_ = json.Unmarshal(c.Data, &d)
		}
		if d.Env.Rep == "" {
			d.Env.Rep = "raw"
		}
		h := real.StdHost()
		if d.Host == "wide" {
			h = wideHost()
		}
		p = &ProgObs{Src: c.Src, Env: d.Env, B: map[real.Backend]*BackendObs{}}
		for _, b := range real.Backends {
			engine.Heartbeat()
			bo := &BackendObs{Obs: real.Run(b, h, c.Src, d.Env)}
			p.Execs++
			if bo.Obs.Val != nil {
				bo.Val, bo.ValErr = real.FromVal(bo.Obs.Val)
			}
			p.B[b] = bo
		}
	} else {
		d := loadProg(c)
		p = observe2(d.Term, d.Env, d.CallEnv, real.StdHost(), real.Backends, false)
	}
	res.Execs = p.Execs
	res.Outcome = p.outcomeSummary()
	res.Violations = p.judgeBackends()
	return res
}
