package props

import (
	"fmt"
	"reflect"
	"strings"

	"github.com/goghcrow/yae"
	"github.com/goghcrow/yae/parser/ast"
	"github.com/goghcrow/yae/types"
	"github.com/goghcrow/yae/val"

	"verif/mc/engine"
	"verif/mc/gen"
	"verif/mc/real"
	"verif/mc/ref"
	"verif/mc/seams"
)

// C13 — evaluation is deterministic, side-effect free and leaves its inputs reusable.
type c13 struct{}

func init() { engine.Register(c13{}) }

func (c13) ID() string { return "C13" }

func (c13) Meta(tier string) engine.Meta {
	d := 4
	if tier == "thorough" {
		d = 5
	}
	return engine.Meta{
		Level: "model_checking",
		Rule: fmt.Sprintf("explicit enumeration of ALL histories of <= %d operations (both back ends up to depth 3, the VM at the last depth) over a menu of 30 operations on ONE engine (plus one operation that compiles and invokes on a SECOND engine with the same shared environments; two operations that compile ONE parsed tree through Expr.CompileExpr against differently typed environments; two that compile against host structs of one Go type whose pointer field is nil / set): compile expression e0..e4 against one SHARED *types.Env object; invoke compiled expression k with one SHARED *val.Env object, with a host struct, with a host map; run Debug on two expressions; compile / invoke an expression that calls function values chosen at run time, with two shared environments holding different values. The expressions print, render multi-entry maps (also with keys that differ only in case) and objects, apply floor / ceil / round / abs / max to variables that are read again afterwards, call string / union / intersect / diff with several surviving elements, reach one value through two paths, and fail. Every history is executed under map-iteration seeds 1..8. Oracle (differential): the last operation's result, its rendering (String() and string(x)), its error class and the captured standard output must equal those of the same operation on a brand-new engine with brand-new environments under seed 1; stdout is empty unless the expression calls print; the host struct / map deep-equal their snapshot afterwards. Plus a long history: 300 compilations of a 300-constant literal followed by fresh compilations. non-trivial = histories of >= 2 operations", d),
		Bound: fmt.Sprintf("depth %d; 5 expressions; 3 environment representations; 8 seeds", d),
		Assumptions: []string{"a state is the whole history that reaches it (no state merging), so no canonicalisation argument is needed"},
	}
}

var c13Exprs = []string{
	`print(n) + 1`,
	`string(["a": n, "b": 2, "c": 3]) + string(o) + string(m) + string(["k": 1, "K": 2, "kk": 3, "Kk": 4]) + string([h, ng])`,
	`[diff([7, 1, 3, 9, 2, 8], l), union(l, [3, 1, 4, 1]), intersect([3, 2, 1, 0], l), [floor(h), h, ceil(h), h, round(h), h, abs(ng), ng, -ng, ng, max(l), l[0]]]`,
	`l[9]`,
	`{a: [l, l], b: [m, m], c: ["k": n, "j": 2, "i": 3]}`,
}

type c13Host struct {
	N float64            `yae:"n"`
	L []float64          `yae:"l"`
	O c13Obj             `yae:"o"`
	M map[string]float64 `yae:"m"`
	H  float64           `yae:"h"`
	NG float64           `yae:"ng"`
}

type c13Obj struct {
	B string  `yae:"b"`
	A float64 `yae:"a"`
}

func c13HostStruct() c13Host {
	return c13Host{N: 2, L: []float64{1, 1, 2, 3, 3, 2}, O: c13Obj{"x", 1}, M: map[string]float64{"a": 1, "b": 2, "c": 3, "A": 4}, H: 2.5, NG: -1.5}
}

func c13HostMap() map[string]interface{} {
	h := c13HostStruct()
	return map[string]interface{}{"n": h.N, "l": h.L, "o": h.O, "m": h.M, "h": h.H, "ng": h.NG}
}

func c13Spec() real.EnvSpec {
	return real.EnvSpec{Rep: "raw", Binds: []real.Binding{
		{Name: "n", V: ref.NumV(2)},
		{Name: "l", V: ref.ListV(gen.Num, nums(1, 1, 2, 3, 3, 2)...)},
		{Name: "o", V: oba(1, "x")},
		{Name: "m", V: ref.MapV(gen.Str, gen.Num, ref.StrV("a"), ref.NumV(1), ref.StrV("b"), ref.NumV(2), ref.StrV("c"), ref.NumV(3), ref.StrV("A"), ref.NumV(4))},
		{Name: "h", V: ref.NumV(2.5)}, {Name: "ng", V: ref.NumV(-1.5)},
	}}
}

// e5 calls function values picked at run time; it has its own pair of shared raw environments
// (A: c=true, i=0; B: c=false, i=1) because host data cannot carry functions.
const c13DynExpr = `[f, g][i](n) + if(c, f, g)(1) + [h2][0](n, i)`

func c13DynSpec(b bool) real.EnvSpec {
	funs := real.StdHost().EnvFuns()
	i := 0.0
	if !b {
		i = 1
	}
	return real.EnvSpec{Rep: "raw", Binds: []real.Binding{
		{Name: "c", V: ref.BoolV(b)}, {Name: "i", V: ref.NumV(i)}, {Name: "n", V: ref.NumV(5)},
		{Name: "f", V: funs["f"]}, {Name: "g", V: funs["g"]}, {Name: "h2", V: funs["h2"]},
	}}
}

// operations: 22 compile e5; 23 / 24 invoke e5 with shared environment A / B;
// 0..4 compile e_i; 5..19 invoke e_{(op-5)/3} with rep (op-5)%3 (0 shared raw env, 1 host
// struct, 2 host map); 20, 21 Debug(e0), Debug(e2)
// 25: compile e1 on a SECOND engine against the same shared *types.Env and invoke it with the
// shared *val.Env (environments must stay usable by other engines)
// 26 / 27: Expr.CompileExpr of ONE parsed tree (`len(w) + len(string(w))`, parsed when the engine
// is created) against an environment where w is a list / where w is a str, and run the closure;
// 28 / 29: compile + invoke `get(p, 0) + q` against host structs of ONE Go type whose pointer field
// is nil / set (the type of a host environment is a function of the value, not of the Go type)
const c13Ops = 30

type c13PtrHost struct {
	P *float64 `yae:"p"` // untagged: num when set, an absent optional when nil
	Q float64  `yae:"q"`
}

func c13OpName(op int) string {
	switch {
	case op == 26:
		return "compile-parsed-tree(w:list)+run"
	case op == 27:
		return "compile-parsed-tree(w:str)+run"
	case op == 28:
		return "compile+invoke(get(p,5)+q, struct with nil pointer)"
	case op == 29:
		return "compile+invoke(p+q, same Go type with the pointer set)"
	case op == 25:
		return "second-engine:compile+invoke(e1,shared-envs)"
	case op < 5:
		return fmt.Sprintf("compile(e%d)", op)
	case op < 20:
		return fmt.Sprintf("invoke(e%d,%s)", (op-5)/3, []string{"shared-env", "struct", "map"}[(op-5)%3])
	case op == 22:
		return "compile(e5)"
	case op == 23:
		return "invoke(e5,shared-env-A)"
	case op == 24:
		return "invoke(e5,shared-env-B)"
	}
	return fmt.Sprintf("debug(e%d)", []int{0, 2}[op-20])
}

func (c13) Generate(tier string, yield func(*engine.Case) bool) {
	depth := 4
	if tier == "thorough" {
		depth = 5
	}
	ok := true
	hasNew := func(h []int) bool {
		for _, o := range h {
			if o >= 26 {
				return true
			}
		}
		return false
	}
	var rec func(h []int, compiled int)
	rec = func(h []int, compiled int) {
		if !ok {
			return
		}
		if len(h) > 0 {
			hs := make([]string, len(h))
			for i, o := range h {
				hs[i] = fmt.Sprint(o)
			}
			backs := []string{"vm"}
			if len(h) <= 3 {
				backs = append(backs, "closure")
			}
			for _, b := range backs {
				if !yield(&engine.Case{Family: fmt.Sprintf("history-%d", len(h)), Key: b + "|" + strings.Join(hs, ","), Args: append([]string{b}, hs...)}) {
					ok = false
					return
				}
			}
		}
		if len(h) == depth {
			return
		}
		for op := 0; op < c13Ops; op++ {
			if (op >= 26 || hasNew(h)) && len(h) >= 3 {
				continue // the four newest operations take part in histories of <= 3 operations only
			}
			c2 := compiled
			if op < 5 {
				c2 |= 1 << op
			} else if op < 20 && compiled&(1<<((op-5)/3)) == 0 {
				continue // cannot invoke what this history has not compiled
			} else if op == 22 {
				c2 |= 1 << 5
			} else if op >= 25 {
				// no precondition
			} else if op > 22 && compiled&(1<<5) == 0 {
				continue
			}
			rec(append(append([]int(nil), h...), op), c2)
		}
	}
	rec(nil, 0)
	if ok {
		yield(&engine.Case{Family: "many-compilations", Key: "300x300", Args: []string{"many"}})
	}
}

type c13World struct {
	e        *yae.Expr
	tree     ast.Expr
	e2       *yae.Expr
	tenv     *types.Env
	venv     *val.Env
	hstruct  c13Host
	hmap     map[string]interface{}
	callable [6]yae.Callable
	tenv5    *types.Env
	venvA    *val.Env
	venvB    *val.Env
}

func newC13World(backend string) *c13World {
	e := yae.NewExpr()
	if backend == "closure" {
		e.UseClosureCompiler()
	}
	e2 := yae.NewExpr()
	if backend == "closure" {
		e2.UseClosureCompiler()
	}
	spec := c13Spec()
	return &c13World{e: e, tree: e.Parse("len(w) + len(string(w))"), e2: e2, tenv: spec.RawTypeEnv(), venv: spec.RawValEnv(), hstruct: c13HostStruct(), hmap: c13HostMap(),
		tenv5: c13DynSpec(true).RawTypeEnv(), venvA: c13DynSpec(true).RawValEnv(), venvB: c13DynSpec(false).RawValEnv()}
}

type c13Obs struct {
	out, stdout string
}

func (w *c13World) do(op int) (o c13Obs) {
	var v *val.Val
	var err error
	pan := ""
	o.stdout = seams.CaptureStdout(func() {
		defer func() {
			if r := recover(); r != nil {
				pan = fmt.Sprint(r)
			}
		}()
		switch {
		case op == 26 || op == 27:
			wv := ref.ListV(gen.Num, nums(1, 2, 3)...)
			if op == 27 {
				wv = ref.StrV("four")
			}
			spec := real.EnvSpec{Rep: "raw", Binds: []real.Binding{{Name: "w", V: wv}}}
			cl := w.e.CompileExpr(w.tree, spec.RawTypeEnv())
			v = cl(real.RuntimeEnv(nil, spec))
		case op == 28 || op == 29:
			seven := 7.0
			host := c13PtrHost{Q: 1}
			if op == 29 {
				host.P = &seven
			}
			src := "get(p, 5) + q"
			if op == 29 {
				src = "p + q"
			}
			var cb yae.Callable
			if cb, err = w.e.Compile(src, host); err == nil {
				v, err = cb(host)
			}
		case op == 25:
			var cb yae.Callable
			if cb, err = w.e2.Compile(c13Exprs[1], w.tenv); err == nil {
				v, err = cb(w.venv)
			}
		case op == 22:
			w.callable[5], err = w.e.Compile(c13DynExpr, w.tenv5)
		case op == 23:
			v, err = w.callable[5](w.venvA)
		case op == 24:
			v, err = w.callable[5](w.venvB)
		case op < 5:
			w.callable[op], err = w.e.Compile(c13Exprs[op], w.tenv)
		case op < 20:
			var arg interface{}
			switch (op - 5) % 3 {
			case 0:
				arg = w.venv
			case 1:
				arg = w.hstruct
			default:
				arg = w.hmap
			}
			v, err = w.callable[(op-5)/3](arg)
		default:
			var rep string
			v, rep, err = yae.Debug(c13Exprs[[]int{0, 2}[op-20]], w.hmap)
			if err == nil {
				rep = strings.ReplaceAll(rep, "\n", "⏎")
				o.out = "report=" + rep + " "
			}
		}
	})
	switch {
	case pan != "":
		o.out += "PANIC " + stable(pan)
	case err != nil:
		o.out += "ERROR " + real.FailKind(err.Error()) + " " + stable(err.Error())
	case v != nil:
		rv, e2 := real.FromVal(v)
		if e2 != nil {
			o.out += "ILLFORMED " + e2.Error()
		} else {
			o.out += "VALUE " + rv.Describe() + " String=" + v.String()
		}
	default:
		o.out += "OK"
	}
	return
}

func (c13) Run(c *engine.Case) *engine.Result {
	res := &engine.Result{}
	if c.Args[0] == "many" {
		return c13Many()
	}
	backend := c.Args[0]
	var h []int
	for _, s := range c.Args[1:] {
		var o int
		fmt.Sscan(s, &o)
		h = append(h, o)
	}
	res.NonTrivial = len(h) >= 2
	last := h[len(h)-1]
	// baseline: the last operation alone on a brand-new engine (plus the compilation an invocation needs)
	seams.SetMapSeed(1)
	bw := newC13World(backend)
	if last >= 5 && last < 20 {
		bw.do((last - 5) / 3)
	}
	if last > 22 && last < 25 {
		bw.do(22)
	}
	base := bw.do(last)
	res.Execs++
	// the differential oracle cannot see process-wide state that is already stale when the baseline
	// runs: the host-struct operations also have an absolute expectation
	if want, ok := map[int]string{28: "VALUE 6 ", 29: "VALUE 8 "}[last]; ok && !strings.HasPrefix(base.out, want) {
		res.Violations = append(res.Violations, vf("history-changes-result", "%s on a brand-new engine (after %d earlier cases of this process) gives %s, the expression denotes %s", c13OpName(last), 0, trunc200(base.out), strings.TrimSpace(want)))
	}
	hostSnap := c13HostStruct()
	mapSnap := c13HostMap()
	for seed := 1; seed <= 8; seed++ {
		engine.Heartbeat()
		seams.SetMapSeed(seed)
		w := newC13World(backend)
		var got c13Obs
		for _, op := range h {
			got = w.do(op)
			res.Execs++
		}
		res.States++
		names := make([]string, len(h))
		for i, op := range h {
			names[i] = c13OpName(op)
		}
		label := fmt.Sprintf("[%s] %s (seed %d)", backend, strings.Join(names, " ; "), seed)
		if got.out != base.out {
			cls := "history-changes-result"
			if len(h) == 1 {
				cls = "result-depends-on-map-seed"
			}
			if strings.Contains(got.out, "env.parent") {
				cls = "env-not-reusable"
			}
			res.Violations = append(res.Violations, vf(cls, "%s: last operation gives %s; alone on a fresh engine it gives %s", label, trunc200(got.out), trunc200(base.out)))
		}
		if got.stdout != base.stdout {
			res.Violations = append(res.Violations, vf("stdout-differs", "%s: standard output %q, fresh-engine baseline %q", label, got.stdout, base.stdout))
		}
		printsSomething := last == 0 || (last >= 5 && last < 8) || last == 20
		if !printsSomething && got.stdout != "" {
			res.Violations = append(res.Violations, vf("stdout-not-empty", "%s wrote %q to standard output without calling print", label, got.stdout))
		}
		if !reflect.DeepEqual(w.hstruct, hostSnap) || !reflect.DeepEqual(w.hmap, mapSnap) {
			res.Violations = append(res.Violations, vf("host-value-modified", "%s: the host environment was modified", label))
		}
		if len(res.Violations) > 4 {
			break
		}
	}
	seams.SetMapSeed(1)
	res.Outcome = base.out
	if len(res.Outcome) > 120 {
		res.Outcome = res.Outcome[:120]
	}
	return res
}

// c13Many: a long compilation history must not change what later compilations do.
func c13Many() *engine.Result {
	res := &engine.Result{NonTrivial: true}
	wide := "len([" + repStr("1", 300, ",") + "])"
	probe := func(e *yae.Expr) string {
		var outs []string
		for _, src := range []string{"1 + 1", wide, c13Exprs[2]} {
			cb, err := e.Compile(src, c13Spec().RawTypeEnv())
			if err != nil {
				outs = append(outs, "ERROR "+stable(err.Error()))
				continue
			}
			v, err := cb(c13Spec().RawValEnv())
			if err != nil {
				outs = append(outs, "ERROR "+stable(err.Error()))
			} else {
				outs = append(outs, v.String())
			}
		}
		return strings.Join(outs, " | ")
	}
	base := probe(yae.NewExpr())
	e := yae.NewExpr()
	for i := 0; i < 300; i++ {
		if _, err := e.Compile(wide, c13Spec().RawTypeEnv()); err != nil {
			res.Violations = append(res.Violations, vf("history-changes-result", "compilation %d of the same 300-element literal fails: %s", i+1, stable(err.Error())))
			break
		}
		res.Execs++
	}
	after := probe(e)
	fresh := probe(yae.NewExpr())
	res.Execs += 9
	if after != base {
		res.Violations = append(res.Violations, vf("history-changes-result", "after 300 compilations on one engine: %s; before: %s", trunc200(after), trunc200(base)))
	}
	if fresh != base {
		res.Violations = append(res.Violations, vf("history-changes-result", "a NEW engine after 300 compilations elsewhere: %s; before: %s", trunc200(fresh), trunc200(base)))
	}
	res.Outcome = base
	return res
}
