package props

import (
	"fmt"

	"github.com/goghcrow/yae"
	"github.com/goghcrow/yae/types"
	"github.com/goghcrow/yae/val"

	"verif/mc/engine"
	"verif/mc/real"
)

// More C07 families on hand-written Go types:
//   - "equally-shaped Go types": the same field names with other numeric kinds are accepted;
//   - two DIFFERENT struct types that carry the same Go name (declared in different functions),
//     seen through the static type path (empty slices, nil pointers);
//   - a compile-time *types.Env in which a name was bound twice (the later binding counts).

func c07RowsNum(n int) interface{} {
	type row struct {
		ID float64 `yae:"id"`
	}
	rows := make([]row, n)
	for i := range rows {
		rows[i].ID = float64(i + 1)
	}
	return map[string]interface{}{"rows": rows}
}

func c07RowsStr(n int) interface{} {
	type row struct {
		ID string `yae:"id"`
	}
	rows := make([]row, n)
	for i := range rows {
		rows[i].ID = fmt.Sprint("r", i)
	}
	return map[string]interface{}{"rows": rows}
}

func c07PtrNum(set bool) interface{} {
	type cell struct {
		V float64 `yae:"v"`
	}
	type holder struct {
		C *cell `yae:"c,maybe"`
	}
	if set {
		return holder{&cell{1}}
	}
	return holder{}
}

func c07PtrStr(set bool) interface{} {
	type cell struct {
		V string `yae:"v"`
	}
	type holder struct {
		C *cell `yae:"c,maybe"`
	}
	if set {
		return holder{&cell{"s"}}
	}
	return holder{}
}

type c07Step struct {
	what   string
	arg    interface{}
	accept bool
}

type c07Script struct {
	name    string
	src     string
	compile func() interface{}
	steps   []c07Step
}

func c07Scripts() []c07Script {
	type ageInt struct {
		Age int `yae:"age"`
	}
	type ageU8 struct {
		Age uint8 `yae:"age"`
	}
	type ageU struct {
		Age uint `yae:"age"`
	}
	type ageF32 struct {
		Age float32 `yae:"age"`
	}
	type ageI64 struct {
		Age int64 `yae:"age"`
	}
	type ageStr struct {
		Age string `yae:"age"`
	}
	type ageU16s struct {
		Age []uint16 `yae:"age"`
	}
	kinds := []c07Step{
		{"int", ageInt{41}, true}, {"uint8", ageU8{41}, true}, {"uint", ageU{41}, true}, {"float32", ageF32{41}, true}, {"int64", ageI64{41}, true},
		{"map with uint", map[string]interface{}{"age": uint(41)}, true}, {"map with uint16", map[string]interface{}{"age": uint16(41)}, true},
		{"map with int32", map[string]interface{}{"age": int32(41)}, true}, {"string field", ageStr{"41"}, false}, {"list field", ageU16s{[]uint16{41}}, false},
		{"pointer to uint8 struct", &ageU8{41}, true}, {"int again", ageInt{41}, true},
	}
	rebind := func(first, second *types.Type) func() interface{} {
		return func() interface{} {
			te := types.NewEnv()
			te.Put("x", first)
			te.Put("y", types.Num)
			te.Put("x", second) // bound again: this is the binding the expression is compiled against
			return te
		}
	}
	venv := func(x *val.Val) interface{} {
		ve := val.NewEnv()
		ve.Put("x", x)
		ve.Put("y", val.Num(2))
		return ve
	}
	return []c07Script{
		{"numeric-kinds", `tr(1, age) + 1`, func() interface{} { return ageInt{7} }, kinds},
		{"numeric-kinds-from-uint", `tr(1, age) + 1`, func() interface{} { return ageU8{7} }, kinds},
		{"same-name-rows/num-first", `tr(1, len(rows))`, func() interface{} { return c07RowsNum(0) }, []c07Step{
			{"empty []row{id str}", c07RowsStr(0), false}, {"empty []row{id num}", c07RowsNum(0), true}, {"2 x row{id str}", c07RowsStr(2), false}, {"2 x row{id num}", c07RowsNum(2), true}}},
		{"same-name-rows/str-first", `tr(1, len(rows))`, func() interface{} { return c07RowsStr(0) }, []c07Step{
			{"empty []row{id num}", c07RowsNum(0), false}, {"empty []row{id str}", c07RowsStr(0), true}, {"2 x row{id num}", c07RowsNum(2), false}, {"2 x row{id str}", c07RowsStr(2), true}}},
		{"same-name-cell/num-first", `tr(1, 1)`, func() interface{} { return c07PtrNum(false) }, []c07Step{
			{"nil *cell{v str}", c07PtrStr(false), false}, {"nil *cell{v num}", c07PtrNum(false), true}, {"*cell{v str}", c07PtrStr(true), false}, {"*cell{v num}", c07PtrNum(true), true}}},
		{"same-name-cell/str-first", `tr(1, 1)`, func() interface{} { return c07PtrStr(false) }, []c07Step{
			{"nil *cell{v num}", c07PtrNum(false), false}, {"nil *cell{v str}", c07PtrStr(false), true}}},
		{"rebound-name/num-then-str", `tr(1, x)`, rebind(types.Num, types.Str), []c07Step{
			{"x: str", venv(val.Str("s")), true}, {"x: num", venv(val.Num(1)), false}, {"x: str", venv(val.Str("t")), true}}},
		{"rebound-name/list-then-num", `tr(1, x)`, rebind(types.List(types.Num), types.Num), []c07Step{
			{"x: num", venv(val.Num(1)), true}, {"x: list[num]", venv(val.List(types.List(types.Num).List(), 0)), false}}},
	}
}

func c07ScriptCases(emit func(*engine.Case)) {
	for i, s := range c07Scripts() {
		emit(&engine.Case{Family: "go-types-scripts", Key: s.name, Src: s.src, Args: []string{"script", fmt.Sprint(i)}})
	}
}

func runC07Script(c *engine.Case) *engine.Result {
	res := &engine.Result{NonTrivial: true}
	var i int
	fmt.Sscan(c.Args[1], &i)
	s := c07Scripts()[i]
	acc := 0
	for _, b := range real.Backends {
		h := real.StdHost()
		e := real.NewEngine(b, h)
		var cb yae.Callable
		var err error
		func() {
			defer func() {
				if r := recover(); r != nil {
					err = fmt.Errorf("panic: %v", r)
				}
			}()
			cb, err = e.Compile(s.src, s.compile())
		}()
		res.Execs++
		if err != nil {
			res.Violations = append(res.Violations, vf("harness-compile-failed", "%s [%s]: %v", s.src, s.name, err))
			return res
		}
		for k, st := range s.steps {
			o := &real.Obs{}
			o.Invoke(cb, st.arg, h)
			res.Execs++
			res.States++
			label := fmt.Sprintf("%s [%s] on %s, invocation %d with %s", s.src, s.name, b, k+1, st.what)
			switch {
			case o.Panic != "":
				res.Violations = append(res.Violations, vf("env-check-panics", "%s panicked: %s", label, stable(o.Panic)))
			case st.accept && o.Val == nil:
				res.Violations = append(res.Violations, vf("matching-env-rejected", "%s: an environment of equal types was rejected: %s", label, stable(o.RunErr)))
			case !st.accept && o.Val != nil:
				res.Violations = append(res.Violations, vf("mismatch-accepted", "%s: an environment of a different type was accepted and evaluated to %v", label, o.Val))
			case !st.accept && len(o.Trace) > 0:
				res.Violations = append(res.Violations, vf("evaluates-before-rejecting", "%s: rejected (%s) but host calls %v were made", label, stable(o.RunErr), o.Trace))
			}
			if o.Val != nil {
				acc++
			}
		}
	}
	res.Outcome = fmt.Sprintf("accepted=%d", acc)
	return res
}
