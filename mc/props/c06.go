package props

import (
	"fmt"
	"strings"

	"verif/mc/engine"
	"verif/mc/gen"
	"verif/mc/real"
	"verif/mc/ref"
)

// C06 — lazy operands run only when selected; strict operands run once, left to right.
type c06 struct{}

func init() { engine.Register(c06{}) }

func (c06) ID() string { return "C06" }

func (c06) Meta(tier string) engine.Meta {
	return engine.Meta{
		Level: "model_checking",
		Rule: "type-directed enumeration over the effects alphabet: tracer calls tr(i, v) (numbered in source order) and poisoned terms ([0][9], 1 % 0, m[\"absent\"]) in every operand position of if, ?:, &&, ||, user-registered lazy and / or / second / twice, strict calls (+, max, not, id), list / map / object literals, subscripts, their nestings (thunks that call lazy functions), and dynamic calls through strict and lazy function values (callee expression first, then the arguments in order). Oracle: the ordered host-call trace and the outcome class predicted by the reference evaluator (condition once, selected operand only, strict operands once, left to right, key before value), on 4 back ends. non-trivial = at least one tracer and one lazy construct or literal",
		Bound: "depth 1 in full; depth 2 with one nested operand (thorough: over all three kinds of poison, plus two nested operands of every unary / binary constructor)",
		Assumptions: []string{"host functions observe evaluation only through their own invocation; twice() evaluates its operand two times by definition"},
	}
}

func effectsEnv() real.EnvSpec {
	return real.EnvSpec{Rep: "raw", Binds: []real.Binding{
		{Name: "m", V: ref.MapV(gen.Str, gen.Num, ref.StrV("a"), ref.NumV(1))},
	}}
}

func trT(v *gen.Term) *gen.Term { return gen.CallT("tr", gen.NumT(0), v) }

func effectsGrammar(full bool) *gen.Grammar {
	g := gen.NewGrammar()
	N, B := gen.Num, gen.Bool
	g.Atom(B, trT(gen.BoolT(true)), trT(gen.BoolT(false)),
		gen.SubT(gen.ListT(gen.BoolT(true)), gen.NumT(9)),
		gen.BoolT(true), gen.BoolT(false)) // bare literals: constant operands next to effectful ones
	g.Atom(N, trT(gen.NumT(1)), gen.Infix("%", gen.NumT(1), gen.NumT(0)), gen.NumT(7))
	if full {
		g.Atom(N, trT(gen.NumT(0)),
			gen.SubT(gen.ListT(gen.NumT(0)), gen.NumT(9)),
			gen.SubT(gen.VarT("m"), gen.StrT("absent")))
	}
	// lazy
	fn(g, "if", B, B, B, B)
	fn(g, "if", N, B, N, N)
	g.Prod("?:", N, []*gen.Ty{B, N, N}, func(x []*gen.Term) *gen.Term { return gen.Ternary(x[0], x[1], x[2]) })
	bin(g, "&&", B, B, B)
	bin(g, "||", B, B, B)
	g.Prod("and", B, []*gen.Ty{B, B}, func(x []*gen.Term) *gen.Term { return gen.Infix("and", x[0], x[1]) })
	g.Prod("or", B, []*gen.Ty{B, B}, func(x []*gen.Term) *gen.Term { return gen.Infix("or", x[0], x[1]) })
	fn(g, "second", N, B, N)
	fn(g, "second", B, N, B)
	fn(g, "twice", N, N)
	fn(g, "twice", B, B)
	// strict
	un(g, "!", B, B)
	g.Prod("not", B, []*gen.Ty{B}, func(x []*gen.Term) *gen.Term { return gen.Prefix("not", x[0]) })
	bin(g, "+", N, N, N)
	bin(g, "==", N, N, B)
	fn(g, "max", N, N, N)
	fn(g, "id", N, N)
	// literals and accesses: elements, key before value, fields in written order
	g.Prod("list-sub", N, []*gen.Ty{N, N, N}, func(x []*gen.Term) *gen.Term { return gen.SubT(gen.ListT(x[0], x[1]), x[2]) })
	g.Prod("list-len", N, []*gen.Ty{N, N}, func(x []*gen.Term) *gen.Term { return gen.CallT("len", gen.ListT(x[0], x[1])) })
	g.Prod("map-len", N, []*gen.Ty{N, N, N, N}, func(x []*gen.Term) *gen.Term {
		return gen.CallT("len", gen.MapT(x[0], x[1], x[2], x[3]))
	})
	g.Prod("obj-mem", N, []*gen.Ty{N, B}, func(x []*gen.Term) *gen.Term {
		return gen.MemT(gen.ObjT([]string{"p", "q"}, x[0], x[1]), "p")
	})
	// map literals: every key and value runs once, in written order, also when a key repeats;
	// a map subscript runs the map, then the key, once each
	g.Prod("map-sub", N, []*gen.Ty{N, N, N}, func(x []*gen.Term) *gen.Term { return gen.SubT(gen.MapT(x[0], x[1]), x[2]) })
	g.Prod("map-dup-num", N, []*gen.Ty{N, N, N}, func(x []*gen.Term) *gen.Term {
		return gen.CallT("len", gen.MapT(gen.NumT(1), x[0], gen.NumT(2), x[1], gen.NumT(1), x[2]))
	})
	g.Prod("map-dup-str", N, []*gen.Ty{N, N}, func(x []*gen.Term) *gen.Term {
		return gen.SubT(gen.MapT(gen.StrT("a"), x[0], gen.StrT("a"), x[1]), gen.StrT("a"))
	})
	g.Prod("map-var-sub", N, []*gen.Ty{N}, func(x []*gen.Term) *gen.Term {
		return gen.Infix("+", gen.SubT(gen.VarT("m"), gen.CallT("tr", gen.NumT(0), gen.StrT("a"))), x[0])
	})
	g.Prod("get-list", N, []*gen.Ty{N, N, N}, func(x []*gen.Term) *gen.Term { return gen.CallT("get", gen.ListT(x[0]), x[1], x[2]) })
	// the guarded idiom
	g.Prod("guard", N, []*gen.Ty{N}, func(x []*gen.Term) *gen.Term {
		return gen.CallT("if", gen.CallT("isset", gen.VarT("m"), gen.StrT("absent")), gen.SubT(gen.VarT("m"), gen.StrT("absent")), x[0])
	})
	return g
}

// renumber gives every tracer a distinct id in source order (terms share sub-term pointers, so the
// tree is copied).
func renumber(t *gen.Term, next *int) *gen.Term {
	cp := *t
	if t.Op == "call" && t.Name == "tr" && len(t.Args) == 2 {
		*next++
		cp.Args = []*gen.Term{gen.NumT(float64(*next)), renumber(t.Args[1], next)}
		return &cp
	}
	if t.Op == "call" && t.Not == "method" {
		// not used here
	}
	cp.Args = make([]*gen.Term, len(t.Args))
	for i, a := range t.Args {
		cp.Args[i] = renumber(a, next)
	}
	return &cp
}

func (c06) Generate(tier string, yield func(*engine.Case) bool) {
	ok := true
	g, env := effectsGrammar(tier == "thorough"), effectsEnv()
	emit := func(fam string, t *gen.Term) bool {
		n := 0
		t2 := renumber(t, &n)
		if ok && !yield(progCase(fam, t2, env, "F")) {
			ok = false
		}
		return ok
	}
	for _, ty := range []*gen.Ty{gen.Bool, gen.Num} {
		g.Each(ty, 1, func(t *gen.Term) bool { return emit("effects", t) })
		if tier != "thorough" {
			// the three kinds of poison in every operand position at depth 1
			effectsGrammar(true).Each(ty, 1, func(t *gen.Term) bool { return emit("effects", t) })
		}
		if tier == "thorough" {
			// one nested operand over the full grammar (all poisons), two nested operands of every
			// unary / binary constructor over the core grammar (full depth 2 is 5.7e13 programs)
			g.EachOneDeep(ty, func(t *gen.Term) bool { return emit("effects1", t) })
			effectsGrammar(false).EachTwoDeep(ty, 2, func(t *gen.Term) bool { return emit("effects2", t) })
		} else {
			g.EachOneDeep(ty, func(t *gen.Term) bool { return emit("effects1", t) })
		}
	}
	if !ok {
		return
	}
	// dynamic calls: the callee is an expression yielding a (strict or lazy) function value
	{
		funs := real.StdHost().EnvFuns()
		for _, cv := range []bool{true, false} {
			iv := 0.0
			if !cv {
				iv = 1
			}
			denv := real.EnvSpec{Rep: "raw", Binds: []real.Binding{
				{Name: "c", V: ref.BoolV(cv)}, {Name: "i", V: ref.NumV(iv)}, {Name: "n", V: ref.NumV(7)},
				{Name: "f", V: funs["f"]}, {Name: "g", V: funs["g"]}, {Name: "h2", V: funs["h2"]}, {Name: "lz", V: funs["lz"]}, {Name: "lz1", V: funs["lz1"]}, {Name: "lzif", V: funs["lzif"]},
			}}
			v, num := gen.VarT, gen.NumT
			tr := func(x float64) *gen.Term { return trT(num(x)) }
			pick := func() *gen.Term { return gen.CallT("if", v("c"), v("f"), v("g")) }
			sel := func(a, b string) *gen.Term { return gen.SubT(gen.ListT(v(a), v(b)), v("i")) }
			poison := gen.SubT(gen.ListT(num(0)), num(9))
			for _, t := range []*gen.Term{
				gen.DCallT(pick(), tr(10)),
				gen.Infix("+", gen.DCallT(sel("f", "g"), tr(2)), gen.DCallT(sel("g", "f"), tr(3))),
				gen.DCallT(gen.CallT("if", v("c"), v("h2"), v("h2")), tr(1), tr(2)),
				gen.DCallT(gen.SubT(gen.ListT(v("h2")), num(0)), tr(3), gen.DCallT(sel("f", "g"), tr(4))),
				gen.DCallT(sel("h2", "h2"), gen.DCallT(pick(), tr(1)), trT(v("n"))),
				gen.DCallT(gen.CallT("if", v("c"), v("lz"), v("lz")), tr(1), tr(2)),
				gen.DCallT(gen.SubT(gen.ListT(v("lz")), num(0)), poison, tr(5)),
				gen.DCallT(gen.SubT(gen.ListT(v("lz")), num(0)), tr(5), poison),
				gen.DCallT(gen.SubT(gen.ListT(v("h2")), num(0)), poison, tr(5)),
				gen.DCallT(gen.CallT("second", tr(1), v("h2")), tr(2), gen.CallT("twice", tr(3))),
				gen.DCallT(gen.SubT(gen.ListT(v("lz1")), num(0)), tr(5), poison),
				gen.DCallT(gen.SubT(gen.ListT(v("lz1"), v("lz")), v("i")), tr(5), tr(6)),
				gen.DCallT(gen.CallT("if", v("c"), v("lz1"), v("lz")), tr(1), poison),
				gen.DCallT(gen.SubT(gen.ListT(v("lzif")), num(0)), trT(v("c")), tr(7), tr(8)),
				gen.DCallT(gen.SubT(gen.ListT(v("lzif")), num(0)), v("c"), tr(7), poison),
				gen.DCallT(gen.SubT(gen.ListT(v("lzif")), num(0)), gen.Prefix("!", v("c")), poison, gen.DCallT(gen.SubT(gen.ListT(v("lz1")), num(0)), tr(1), tr(2))),
				gen.DCallT(gen.CallT("tr", num(0), v("f")), gen.DCallT(gen.CallT("tr", num(0), v("g")), tr(9))),
			} {
				n := 0
				if ok && !yield(progCase("dynamic-calls", renumber(t, &n), denv, fmt.Sprintf("c=%v", cv))) {
					ok = false
				}
			}
		}
	}
	// nested lazies: a hand-built family of thunks calling lazy functions, three levels deep
	tb, fb := trT(gen.BoolT(true)), trT(gen.BoolT(false))
	n1, pz := trT(gen.NumT(1)), gen.Infix("%", gen.NumT(1), gen.NumT(0))
	for _, c1 := range []*gen.Term{tb, fb} {
		for _, c2 := range []*gen.Term{tb, fb} {
			for _, c3 := range []*gen.Term{tb, fb} {
				emit("nested", gen.CallT("if", c1, gen.CallT("if", c2, gen.CallT("if", c3, n1, pz), pz), gen.CallT("twice", gen.CallT("if", c3, pz, n1))))
				emit("nested", gen.Infix("&&", c1, gen.Infix("||", c2, gen.Infix("&&", c3, gen.Infix("==", pz, n1)))))
				emit("nested", gen.CallT("second", pz, gen.CallT("second", c1, gen.CallT("twice", gen.Ternary(c2, gen.CallT("twice", n1), pz)))))
				emit("nested", gen.Infix("and", gen.Infix("or", c1, c2), gen.Prefix("not", gen.Infix("and", c3, gen.Infix("==", pz, n1)))))
				emit("nested", gen.Ternary(gen.Infix("||", c1, gen.Infix("==", pz, n1)), gen.Ternary(c2, n1, pz), gen.Ternary(c3, pz, n1)))
			}
		}
	}
}

func (c06) Run(c *engine.Case) *engine.Result {
	h := real.StdHost()
	h.EnvFuns() // function-typed environment bindings resolve to this host's functions
	d := loadProg(c)
	p := observe(d.Term, d.Env, h, real.Backends, false)
	res := &engine.Result{Execs: p.Execs, Outcome: p.outcomeSummary() + " trace=" + strings.Join(p.RefTrace, ";")}
	res.NonTrivial = strings.Contains(p.Src, "tr(") && d.Term.Depth() >= 1
	res.Violations = p.judgeTrace()
	if p.RefErr != nil {
		res.Violations = append(res.Violations, vf("harness-generated-ill-typed", "%s: %s", p.Src, p.RefErr.Msg))
	}
	return res
}
