package props

import (
	"fmt"
	"strings"

	"github.com/goghcrow/yae/types"
	"github.com/goghcrow/yae/val"

	"verif/mc/engine"
	"verif/mc/gen"
	"verif/mc/real"
	"verif/mc/ref"
)

// C12, evaluation half: "evaluation time grows at most polynomially with the size of the compiled
// expression". Work is counted, never timed: the number of host-function invocations an
// evaluation performs. Chains and nests of every lazy construct are built so that the reference
// evaluator performs at most n invocations; the real back ends must perform exactly as many. The
// counting tracer aborts the evaluation (panic → error result) once 4n+16 invocations are
// exceeded, so an exponential blow-up costs nothing and is reported from the counter.

var c12WorkKinds = []string{"or-true-first", "or-all-false", "and-false-first", "and-all-true", "user-or", "user-and", "if-nest", "ternary-chain", "second-nest", "or-right-nest", "mixed"}

func c12WorkProgram(kind string, n int) *gen.Term {
	tr := func(i int, v *gen.Term) *gen.Term { return gen.CallT("tr", gen.NumT(float64(i)), v) }
	T, F := gen.BoolT(true), gen.BoolT(false)
	chain := func(op string, first, rest *gen.Term) *gen.Term {
		t := tr(0, first)
		for i := 1; i < n; i++ {
			t = gen.Infix(op, t, tr(i, rest)) // left-nested, as the operators associate
		}
		return t
	}
	switch kind {
	case "or-true-first":
		return chain("||", T, F)
	case "user-or":
		return chain("or", T, F)
	case "or-all-false":
		return chain("||", F, F)
	case "and-false-first":
		return chain("&&", F, T)
	case "user-and":
		return chain("and", F, T)
	case "and-all-true":
		return chain("&&", T, T)
	case "or-right-nest":
		t := tr(n, T)
		for i := n - 1; i >= 0; i-- {
			t = gen.Infix("||", tr(i, F), gen.GroupT(t))
		}
		return t
	case "if-nest":
		t := gen.NumT(1)
		for i := n - 1; i >= 0; i-- {
			t = gen.CallT("if", tr(i, T), t, gen.NumT(0))
		}
		return t
	case "ternary-chain":
		t := gen.NumT(0)
		for i := n - 1; i >= 0; i-- {
			t = gen.Ternary(tr(i, F), gen.NumT(float64(i)), t)
		}
		return t
	case "second-nest":
		t := gen.NumT(1)
		for i := n - 1; i >= 0; i-- {
			t = gen.CallT("second", tr(i, gen.NumT(0)), t)
		}
		return t
	}
	// mixed: (t || f ? true : false) && … with a conditional in every operand
	var t *gen.Term
	for i := 0; i < n; i++ {
		x := gen.GroupT(gen.Ternary(gen.Infix("||", tr(2*i, T), tr(2*i+1, F)), T, F))
		if t == nil {
			t = x
		} else {
			t = gen.Infix("&&", t, x)
		}
	}
	return t
}

func c12WorkCases(emit func(fam, key, src string, args ...string)) {
	for _, k := range c12WorkKinds {
		for _, n := range []int{2, 3, 5, 8, 12, 16, 24, 40} {
			emit("eval-work", fmt.Sprintf("%s-%d", k, n), c12WorkProgram(k, n).Render(), "evalwork", k, fmt.Sprint(n))
		}
	}
}

// countingHost: the standard host functions with a tracer that only counts.
func countingHost(limit int, count *int) *real.Host {
	h := real.QuietHost()
	a := types.TyVar("a")
	cnt := val.Fun(types.Fun("tr", []*types.Type{types.Num, a}, a), func(x ...*val.Val) *val.Val {
		*count++
		if *count > limit {
			panic("evaluation-work budget exceeded")
		}
		return x[1]
	})
	for i, v := range h.Vals {
		if v.Fun().Type.Fun().Name == "tr" {
			h.Vals[i] = cnt
		}
	}
	return h
}

func runC12Work(c *engine.Case) *engine.Result {
	res := &engine.Result{NonTrivial: true}
	var n int
	fmt.Sscan(c.Args[2], &n)
	term := c12WorkProgram(c.Args[1], n)
	src := term.Render()
	// the reference evaluator's number of tracer invocations
	rh := real.StdHost()
	ck := ref.NewChecker(rh.RefFuns(), map[string]*gen.Ty{})
	if _, err := ck.Check(term); err != nil {
		res.Violations = append(res.Violations, vf("harness-generated-ill-typed", "%s: %s", trunc200(src), err.Msg))
		return res
	}
	ev := ref.NewEval(ck.Res, nil)
	ev.Run(term)
	want := 0
	for _, t := range ev.Trace {
		if strings.HasPrefix(t, "tr(") {
			want++
		}
	}
	limit := 4*n + 16
	var outs []string
	for _, b := range real.Backends {
		count := 0
		h := countingHost(limit, &count)
		o := real.Run(b, h, src, real.EnvSpec{Rep: "raw"})
		res.Execs++
		res.States++
		outs = append(outs, fmt.Sprintf("%s=%d", b, count))
		switch {
		case o.CompileErr != "" || (o.Panic != "" && o.Stage == "compile"):
			res.Violations = append(res.Violations, vf("harness-compile-failed", "%s on %s: %s%s", trunc200(src), b, o.CompileErr, stable(o.Panic)))
		case count > limit:
			res.Violations = append(res.Violations, vf("evaluation-work-superlinear", "%s (%d operands) on %s: more than %d host-function invocations; evaluating it once per the language's rules takes %d", c.Key, n, b, limit, want))
		case b == real.VMCall && o.RunErr == "over exec limit":
			// judged by C03
		case count != want:
			res.Violations = append(res.Violations, vf("evaluation-work-differs", "%s (%d operands) on %s: %d host-function invocations, the language's rules give %d", c.Key, n, b, count, want))
		case o.Panic != "":
			res.Violations = append(res.Violations, vf("api-panic", "%s on %s panicked: %s", c.Key, b, stable(o.Panic)))
		}
	}
	res.Outcome = fmt.Sprintf("want=%d %s", want, strings.Join(outs, " "))
	return res
}
