package props

import (
	"encoding/json"
	"fmt"
	"strings"

	"github.com/goghcrow/yae"
	"github.com/goghcrow/yae/val"

	"verif/mc/engine"
	"verif/mc/gen"
	"verif/mc/real"
	"verif/mc/ref"
	"verif/mc/seams"
)

// C07 — a compiled expression never runs on an environment of mismatching types.
type c07 struct{}

func init() { engine.Register(c07{}) }

func (c07) ID() string { return "C07" }

func (c07) Meta(tier string) engine.Meta {
	return engine.Meta{
		Level: "model_checking",
		Rule: "all pairs (compile-time binding of x, run-time binding of x) over 22 values of 18 types (scalars, lists, maps, objects in both field orders, objects / lists / optionals of objects with one field renamed at equal field count, empty object, optionals present / absent) plus the run-time mutations {x missing, y missing, extra name z, y of another type}, × 7 representation pairs (raw→raw, map→map, struct→struct, map→struct, struct→map, raw→map, map→raw), × 6 programs containing tracers, × map-iteration seeds 1..8; plus every history of <= 3 invocations of one Callable drawn from {matching, matching with other values, type mismatch, missing name, same Go type with a nil pointer where the sample had a value}, for raw / map / struct environments and for ONE raw environment object rebound in place between invocations. plus 13 run-time values of the sample's Go type whose nested elements differ in type (maps of slices, slices of maps, struct fields ...) x 4 back ends x map seeds 1..8, each between two good calls. plus 8 scripts on hand-written Go types: the same field with 8 other numeric kinds (accepted) and other constructors (rejected), two different struct types carrying one Go name seen through empty slices / nil pointers, a compile-time *types.Env in which a name was bound twice. Oracle: accepted iff every compile-time name is present with a structurally equal type (fields by name); on rejection: an error, an EMPTY host-call trace and no panic; on acceptance: value and trace equal the reference evaluator's; each invocation's outcome is independent of the history before it. non-trivial = every case",
		Bound: "two names; histories of length <= 3",
		Assumptions: []string{"the type of a host value is what the reference derives from its description (C15 checks that conversion agrees)"},
	}
}

func c07Values() []*ref.V {
	return []*ref.V{
		ref.NumV(1), ref.NumV(2), ref.StrV("a"), ref.BoolV(true), ref.TimeV(t0),
		ref.ListV(gen.Num, nums(1, 2)...), ref.ListV(gen.Num), ref.ListV(gen.Str, strs("a")...), ref.ListV(tyOAB, oab(1, "x"), oba(2, "y")),
		ref.MapV(gen.Str, gen.Num, ref.StrV("k"), ref.NumV(1)), ref.MapV(gen.Num, gen.Str, ref.NumV(1), ref.StrV("v")), ref.MapV(gen.Str, gen.Str, ref.StrV("k"), ref.StrV("v")),
		oab(1, "x"), oba(3, "z"), ref.ObjV([]string{"a"}, ref.NumV(1)), ref.ObjV(nil),
		ref.JustV(ref.NumV(5)), ref.NothingV(gen.Num), ref.JustV(oba(1, "m")),
		// same field count as {a,b}, one field renamed (a per-field lookup that forgets the miss accepts it)
		oac(1, "x"), ref.ListV(tyOAC, oac(1, "x")), ref.JustV(oac(1, "m")),
	}
}

var c07Reps = [][2]string{{"raw", "raw"}, {"map", "map"}, {"struct", "struct"}, {"map", "struct"}, {"struct", "map"}, {"raw", "map"}, {"map", "raw"}}

func c07Programs() []*gen.Term {
	x, y := gen.VarT("x"), gen.VarT("y")
	tr := func(i float64, v *gen.Term) *gen.Term { return gen.CallT("tr", gen.NumT(i), v) }
	return []*gen.Term{
		tr(1, y),
		gen.CallT("string", tr(1, x)),
		gen.ListT(tr(1, x), tr(2, x)),
		gen.CallT("if", tr(1, gen.BoolT(true)), tr(2, x), tr(3, x)),
		gen.Infix("+", tr(1, y), gen.NumT(1)),
		gen.CallT("len", gen.ListT(tr(1, x))),
	}
}

type c07Data struct {
	Prog    int          `json:"prog"`
	Compile real.EnvSpec `json:"compile"`
	Run     real.EnvSpec `json:"run"`
	Mut     string       `json:"mut"`
}

func (c07) Generate(tier string, yield func(*engine.Case) bool) {
	vals := c07Values()
	ok := true
	emit := func(fam, key string, d c07Data) {
		if !ok {
			return
		}
		b, err := json.Marshal(d)
		if err != nil {
			panic(err)
		}
		if !yield(&engine.Case{Family: fam, Key: key, Data: b}) {
			ok = false
		}
	}
	yv := ref.NumV(2)
	for _, reps := range c07Reps {
		okRep := func(v *ref.V, rep string) bool {
			return rep == "raw" || real.HostRepresentable(v.T, true, rep)
		}
		for i, v1 := range vals {
			if !okRep(v1, reps[0]) {
				continue
			}
			cenv := real.EnvSpec{Rep: reps[0], Binds: []real.Binding{{Name: "x", V: v1}, {Name: "y", V: yv}}}
			for pi := range c07Programs() {
				for j, v2 := range vals {
					if !okRep(v2, reps[1]) {
						continue
					}
					renv := real.EnvSpec{Rep: reps[1], Binds: []real.Binding{{Name: "x", V: v2}, {Name: "y", V: ref.NumV(7)}}}
					emit("pairs-"+reps[0]+"-"+reps[1], fmt.Sprintf("p%d|%d:%s→%d:%s", pi, i, v1.T, j, v2.T), c07Data{pi, cenv, renv, ""})
				}
				// run-time mutations of an otherwise matching environment
				if okRep(v1, reps[1]) {
					muts := map[string][]real.Binding{
						"x-missing": {{Name: "y", V: yv}},
						"y-missing": {{Name: "x", V: v1}},
						"extra-z":   {{Name: "x", V: v1}, {Name: "y", V: yv}, {Name: "z", V: ref.StrV("extra")}},
						"y-str":     {{Name: "x", V: v1}, {Name: "y", V: ref.StrV("2")}},
						"empty":     {},
					}
					for _, m := range []string{"x-missing", "y-missing", "extra-z", "y-str", "empty"} {
						emit("mutations-"+reps[0]+"-"+reps[1], fmt.Sprintf("p%d|%d:%s|%s", pi, i, v1.T, m), c07Data{pi, cenv, real.EnvSpec{Rep: reps[1], Binds: muts[m]}, m})
					}
				}
			}
		}
	}
	c07ScriptCases(func(c *engine.Case) {
		if ok && !yield(c) {
			ok = false
		}
	})
	c07BadCases(func(c *engine.Case) {
		if ok && !yield(c) {
			ok = false
		}
	})
	// histories
	var hists [][]int
	var rec func(h []int)
	rec = func(h []int) {
		if len(h) > 0 {
			hists = append(hists, append([]int(nil), h...))
		}
		if len(h) == 3 {
			return
		}
		for v := 0; v < 5; v++ {
			rec(append(h, v))
		}
	}
	rec(nil)
	for _, rep := range []string{"raw", "map", "struct", "ptr", "rawmut"} {
		for pi := 0; pi < 3; pi++ {
			for _, h := range hists {
				if rep == "rawmut" && strings.Contains(fmt.Sprint(h), "3") {
					continue // a name cannot be removed from an environment object
				}
				hs := make([]string, len(h))
				for i, v := range h {
					hs[i] = fmt.Sprint(v)
				}
				if ok && !yield(&engine.Case{Family: "history-" + rep, Key: fmt.Sprintf("p%d|%s", pi, strings.Join(hs, ",")), Args: append([]string{"hist", rep, fmt.Sprint(pi)}, hs...)}) {
					ok = false
				}
			}
		}
	}
}

func typesMatch(compile, run real.EnvSpec) bool {
	rt := run.Types()
	for n, t := range compile.Types() {
		u, ok := rt[n]
		if !ok || !gen.Equal(t, u) {
			return false
		}
	}
	return true
}

// expectRun: the reference outcome of running prog in env.
func expectRun(prog *gen.Term, h *real.Host, compile, run real.EnvSpec) (val *ref.V, fail *ref.Fail, trace []string, ok bool) {
	ck := ref.NewChecker(h.RefFuns(), compile.Types())
	if _, err := ck.Check(prog); err != nil {
		return nil, nil, nil, false
	}
	ev := ref.NewEval(ck.Res, run.Values())
	v, f := ev.Run(prog)
	return v, f, ev.Trace, true
}

func judgeInvocation(res *engine.Result, label string, o *real.Obs, prog *gen.Term, h *real.Host, compile, run real.EnvSpec) string {
	bad := func(class, f string, a ...interface{}) {
		if len(res.Violations) < 6 {
			res.Violations = append(res.Violations, vf(class, f, a...))
		}
	}
	match := typesMatch(compile, run)
	if o.Panic != "" {
		bad("envcheck-panic", "%s: the Callable panicked: %s", label, stable(o.Panic))
		return "PANIC"
	}
	if !match {
		if o.RunErr == "" {
			got := "?"
			if o.Val != nil {
				got = describeVal(o)
			}
			bad("runs-on-mismatching-env", "%s: environment types differ from the compile-time ones but the expression was evaluated (result %s)", label, got)
			return "accepted!"
		}
		if len(o.Trace) > 0 {
			bad("evaluates-before-rejecting", "%s: rejected (%s) but host functions had already run: %v", label, stable(o.RunErr), o.Trace)
		}
		return "rejected"
	}
	want, wfail, wtrace, okRef := expectRun(prog, h, compile, run)
	if !okRef {
		return "ref-rejects"
	}
	if o.RunErr != "" {
		if wfail == nil {
			bad("rejects-matching-env", "%s: environment types equal the compile-time ones but the call failed: %s", label, stable(o.RunErr))
		}
		return "failed"
	}
	rv, err := real.FromVal(o.Val)
	if err != nil {
		return "illformed"
	}
	if wfail == nil && !ref.Same(want, rv) {
		bad("wrong-result-on-matching-env", "%s: result %s, expected %s", label, rv.Describe(), want.Describe())
	}
	if strings.Join(wtrace, ";") != strings.Join(o.Trace, ";") {
		bad("wrong-trace-on-matching-env", "%s: host calls %v, expected %v", label, o.Trace, wtrace)
	}
	return "accepted"
}

func describeVal(o *real.Obs) string {
	rv, err := real.FromVal(o.Val)
	if err != nil {
		return "<ill-formed>"
	}
	return rv.Describe()
}

func (c07) Run(c *engine.Case) *engine.Result {
	res := &engine.Result{NonTrivial: true}
	if len(c.Args) > 0 && c.Args[0] == "script" {
		return runC07Script(c)
	}
	if len(c.Args) > 0 && c.Args[0] == "bad" {
		return runC07Bad(c)
	}
	if len(c.Args) > 0 && c.Args[0] == "hist" {
		return c07History(c)
	}
	var d c07Data
	if err := json.Unmarshal(c.Data, &d); err != nil {
		panic(err)
	}
	prog := c07Programs()[d.Prog]
	src := prog.Render()
	var outs []string
	for seed := 1; seed <= 8; seed++ {
		engine.Heartbeat()
		seams.SetMapSeed(seed)
		h := real.StdHost()
		o := real.Run2(real.VMSwitch, h, src, d.Compile, d.Run)
		res.Execs++
		if o.CompileErr != "" || (o.Panic != "" && o.Stage == "compile") {
			seams.SetMapSeed(1)
			res.Violations = append(res.Violations, vf("harness-compile-failed", "%s against %s: %s%s", src, fmtEnv(d.Compile), o.CompileErr, o.Panic))
			return res
		}
		label := fmt.Sprintf("%s compiled with %s, called with %s (seed %d)", src, fmtEnv(d.Compile), fmtEnv(d.Run), seed)
		outs = append(outs, judgeInvocation(res, label, o, prog, h, d.Compile, d.Run))
	}
	seams.SetMapSeed(1)
	res.Outcome = strings.Join(outs, ",")
	return res
}

type ptrEnv struct {
	X *float64 `yae:"x"`
	Y float64  `yae:"y"`
}

// c07History: one Callable, a sequence of environments.
func c07History(c *engine.Case) *engine.Result {
	res := &engine.Result{NonTrivial: true}
	rep := c.Args[1]
	var pi int
	fmt.Sscan(c.Args[2], &pi)
	prog := c07Programs()[[]int{0, 1, 4}[pi]]
	src := prog.Render()
	one, nine := 1.0, 9.0
	// variants: 0 matching, 1 matching with other values, 2 type mismatch, 3 missing name, 4 rep-specific
	variants := func(v int) (real.EnvSpec, interface{}) {
		mk := func(r string, b ...real.Binding) real.EnvSpec { return real.EnvSpec{Rep: r, Binds: b} }
		r := rep
		if rep == "rawmut" {
			r = "raw"
		}
		if rep == "ptr" {
			// hand-written Go type whose pointer field is present in the compile-time sample
			switch v {
			case 0:
				return mk("struct", real.Binding{Name: "x", V: ref.NumV(1)}, real.Binding{Name: "y", V: ref.NumV(2)}), ptrEnv{&one, 2}
			case 1:
				return mk("struct", real.Binding{Name: "x", V: ref.NumV(9)}, real.Binding{Name: "y", V: ref.NumV(3)}), ptrEnv{&nine, 3}
			case 2, 4:
				return mk("struct", real.Binding{Name: "x", V: ref.NothingV(gen.Num)}, real.Binding{Name: "y", V: ref.NumV(2)}), ptrEnv{nil, 2}
			default:
				return mk("struct", real.Binding{Name: "y", V: ref.NumV(2)}), struct {
					Y float64 `yae:"y"`
				}{2}
			}
		}
		// x is composite-typed: stale state inside the type comparison only shows on composite types
		ln := func(xs ...float64) *ref.V { return ref.ListV(gen.Num, nums(xs...)...) }
		switch v {
		case 0:
			return mk(r, real.Binding{Name: "x", V: ln(1)}, real.Binding{Name: "y", V: ref.NumV(2)}), nil
		case 1:
			return mk(r, real.Binding{Name: "x", V: ln(9, 8)}, real.Binding{Name: "y", V: ref.NumV(3)}), nil
		case 2:
			return mk(r, real.Binding{Name: "x", V: ref.ListV(gen.Str, strs("s")...)}, real.Binding{Name: "y", V: ref.NumV(2)}), nil
		case 3:
			return mk(r, real.Binding{Name: "y", V: ref.NumV(2)}), nil
		default:
			return mk(r, real.Binding{Name: "x", V: ref.MapV(gen.Str, gen.Num, ref.StrV("k"), ref.NumV(1))}, real.Binding{Name: "y", V: ref.NumV(2)}), nil
		}
	}
	h := real.StdHost()
	e := real.NewEngine(real.VMSwitch, h)
	cspec, chost := variants(0)
	var carg interface{} = chost
	var err error
	if carg == nil {
		if carg, err = cspec.CompileArg(); err != nil {
			panic(err)
		}
	}
	var cb yae.Callable
	func() {
		defer func() {
			if r := recover(); r != nil {
				err = fmt.Errorf("panic: %v", r)
			}
		}()
		cb, err = e.Compile(src, carg)
	}()
	res.Execs++
	if err != nil {
		res.Violations = append(res.Violations, vf("harness-compile-failed", "%s: %v", src, err))
		return res
	}
	// environments are built once per variant and reused when a variant repeats in the history
	args := map[int]interface{}{}
	var outs []string
	var shared *val.Env // rawmut: ONE environment object, rebound in place between invocations
	for step, vs := range c.Args[3:] {
		var v int
		fmt.Sscan(vs, &v)
		spec, host := variants(v)
		arg, seen := args[v]
		if rep == "rawmut" {
			if shared == nil {
				shared = cspec.RawValEnv()
			}
			for _, b := range spec.Binds {
				shared.Put(b.Name, real.ToVal(b.V))
			}
			arg, seen = shared, true
		}
		if !seen {
			arg = host
			if arg == nil {
				if arg, err = spec.CallArg(); err != nil {
					panic(err)
				}
			}
			args[v] = arg
		}
		o := &real.Obs{}
		o.Invoke(cb, arg, h)
		res.Execs++
		label := fmt.Sprintf("%s [%s], invocation %d of history %v (environment %s)", src, rep, step+1, c.Args[3:], fmtEnv(spec))
		outs = append(outs, judgeInvocation(res, label, o, prog, h, cspec, spec))
	}
	res.Outcome = strings.Join(outs, ",")
	return res
}
