package props

import (
	"fmt"
	"reflect"
	"strings"
	"time"
	"unicode/utf8"

	"github.com/goghcrow/yae"

	"verif/mc/engine"
	"verif/mc/real"
	"verif/mc/seams"
)

// C12 — the public API is total: a value or an error, promptly, for every input.
type c12 struct{}

func init() { engine.Register(c12{}) }

func (c12) ID() string { return "C12" }

func (c12) Meta(tier string) engine.Meta {
	n := 4
	if tier == "thorough" {
		n = 5
	}
	return engine.Meta{
		Level: "model_checking",
		Rule: fmt.Sprintf("(a) ALL token sequences of <= %d tokens over a 26-token alphabet through Eval, Compile + call (closure back end) and Debug; (b) every single token insertion / deletion / duplication / replacement of a 24-program corpus (thorough: also double edits); the corpus re-joined with 12 kinds of white space (tab, CR, LF, CRLF, VT, FF, NBSP, U+2028, U+3000 …); (c) nesting families ( [ {a: [1: key-position maps f( - ! a?b: a?: .m [0] if( list-in-first-position, each to depth 64 (thorough 200); (d) host values of every Go shape of depth <= 2 incl. nil, typed nil, pointer to nil pointer, nil interface inside containers, cyclic pointers, recursive types, unsupported kinds (chan, func, complex, uintptr), as environment of Eval / Compile / Callable / Debug. (e) chains and nests of 2…40 operands of every lazy construct (|| && or and if ?: second) with counting tracers: the number of host-function invocations must equal the reference evaluator's (evaluation work is counted, the tracer aborts past 4n+16); (f) a conditional after more than 64 KiB of code. Oracle: the API returns (value, error): a panic that escapes, or a dead worker, is a violation; the counted work (lexer tokens, parser expr calls, checker nodes, unify calls, conversion calls: build-tag Step hooks) must stay <= 200·(n+2)²+2000 for an input of n runes — enforced as a deterministic budget abort, never a wall-clock limit. non-trivial = inputs that reach the parser (not rejected by the lexer)", n),
		Bound: fmt.Sprintf("%d tokens; nest depth 64 / 200; host shapes depth 2", n),
		Assumptions: []string{"'polynomial' is checked as quadratic in counted steps with a 200× constant; evaluation work is bounded through C11 (forward-only bytecode) and is not step-counted"},
	}
}

var c12Tokens = []string{"1", "\"a\"", "true", "x", "o", "l", "m", "(", ")", "[", "]", "{", "}", ",", ":", ".", "?", "+", "-", "*", "==", "&&", "!", "if", "len", "a"}

var c12Corpus = []string{
	"1 + 2 * 3", "x + 1", "o.a + 1", "l[0] + l[1]", "m[\"k\"]", "if(x > 0, x, -x)", "x > 0 ? \"p\" : \"n\"", "len(l) == 2 && !false",
	"[1, 2, 3][x]", "[\"a\": 1, \"b\": 2][\"a\"]", "{a: 1, b: \"s\"}.a", "get(m, \"z\", 0)", "l.len() + \"ab\".len()", "string([1, 2]) + \"!\"",
	"union(l, [3]) == [1, 2, 3]", "max(l) - min(l)", "'2022-01-02' < '2022-01-03'", "-x ^ 2", "not (x == 1)", "1 < 2 and 2 < 3 or false",
	"isset(m, \"k\") ? m[\"k\"] : 0", "[[1], [2, 3]][1][0]", "{p: {q: [1]}}.p.q[0]", "print(x) + 1",
}

func c12Env() interface{} {
	return map[string]interface{}{
		"x": 1, "o": struct {
			A int    `yae:"a"`
			B string `yae:"b"`
		}{1, "s"}, "l": []int{1, 2}, "m": map[string]int{"k": 7}, "a": 2.5,
	}
}

func rep(s string, n int) string { return strings.Repeat(s, n) }

// nest families: each returns the source for depth d.
var c12Nests = []struct {
	name string
	f    func(d int) string
}{
	{"paren", func(d int) string { return rep("(", d) + "1" + rep(")", d) }},
	{"list", func(d int) string { return rep("[", d) + "1" + rep("]", d) }},
	{"list-first", func(d int) string { return rep("[", d) + "1" + rep(", 2]", d) }},
	{"obj", func(d int) string { return rep("{a:", d) + "1" + rep("}", d) }},
	{"map-val", func(d int) string { return rep("[1:", d) + "1" + rep("]", d) }},
	{"map-key", func(d int) string { return rep("[", d) + "1:1" + rep("]:1", d-1) + "]" }},
	{"map-key-bad", func(d int) string { return rep("[", d) + "1:1" + rep("]:1", d-1) }},
	{"call", func(d int) string { return rep("len(", d) + "l" + rep(")", d) }},
	{"neg", func(d int) string { return rep("-", d) + "1" }},
	{"not", func(d int) string { return rep("!", d) + "true" }},
	{"ternary-else", func(d int) string { return rep("true ? 1 : ", d) + "0" }},
	{"ternary-then", func(d int) string { return rep("true ? ", d) + "1" + rep(" : 0", d) }},
	{"member", func(d int) string { return "o" + rep(".a", d) }},
	{"subscript", func(d int) string { return "l" + rep("[0]", d) }},
	{"if", func(d int) string { return rep("if(true,", d) + "1" + rep(",0)", d) }},
	{"and", func(d int) string { return "true" + rep(" && true", d) }},
	{"unclosed", func(d int) string { return rep("[(", d) }},
	{"method", func(d int) string { return "l" + rep(".len()", d) }},
	{"group-map", func(d int) string { return rep("([", d) + "1:1" + rep("])", d) }},
	{"union", func(d int) string { return rep("union(", d) + "l" + rep(",l)", d) }},
}

func (c12) Generate(tier string, yield func(*engine.Case) bool) {
	ok := true
	emit := func(fam, key, src string, args ...string) {
		if ok && !yield(&engine.Case{Family: fam, Key: key, Src: src, Args: args}) {
			ok = false
		}
	}
	// (a) token sequences: a case is a two-token prefix; the run enumerates the suffixes
	emit("tokens", "short", "", "tokens", "short")
	for _, a := range c12Tokens {
		for _, b := range c12Tokens {
			emit("tokens", a+" "+b, a+" "+b, "tokens", a, b)
		}
	}
	// (b) edits of the corpus
	for pi, src := range c12Corpus {
		emit("edits", fmt.Sprintf("p%d", pi), src, "edits", fmt.Sprint(pi))
	}
	// (b2) the corpus with every kind of white space between its tokens
	for pi := range c12Corpus {
		emit("separators", fmt.Sprintf("p%d", pi), c12Corpus[pi], "seps", fmt.Sprint(pi))
	}
	// (c) nests
	maxD := 64
	if tier == "thorough" {
		maxD = 200
	}
	for _, n := range c12Nests {
		for d := 1; d <= maxD; d++ {
			if d > 40 && d%8 != 0 && tier != "thorough" {
				continue
			}
			emit("nest-"+n.name, fmt.Sprint(d), n.f(d), "src")
		}
	}
	// (e) evaluation work, counted in host-function invocations
	c12WorkCases(emit)
	// (f) a conditional AFTER more than 64 KiB of code: the VM must refuse (capacity) or evaluate, never loop
	for _, n := range []int{16380, 16384, 16388, 16392, 16396, 16400, 16404, 16408, 21845, 21850} {
		for ci, cond := range []string{"if(true, 2, 3)", "(true ? 2 : 3)", "if(true && false, 2, 3)", "if(false || true, 2, 3)"} {
			emit("late-branch", fmt.Sprintf("%d-%d", n, ci), strings.Repeat("1+", n)+cond, "vmonly")
		}
	}
	// (d) host values
	for i := range c12HostValues() {
		emit("host", fmt.Sprint(i), "", "host", fmt.Sprint(i))
	}
}

type recT struct {
	Next *recT `yae:"next,maybe"`
	V    int   `yae:"v"`
}

type cycT struct {
	Self *cycT
	V    int
}

func c12HostValues() []interface{} {
	var nilMap map[string]int
	var nilPtr *struct{ A int }
	var nilIface interface{}
	var nilSlice []int
	pp := &nilPtr
	cyc := &cycT{V: 1}
	cyc.Self = cyc
	deep := &recT{V: 1}
	cur := deep
	for i := 0; i < 150; i++ {
		cur.Next = &recT{V: i}
		cur = cur.Next
	}
	type S struct {
		A *int `yae:"a"`
		B []int
		C map[string]*int
		D interface{}
		E chan int
	}
	type T struct {
		F func()
	}
	one := 1
	vals := []interface{}{
		nil, nilMap, &nilMap, nilPtr, pp, &pp, nilIface, &nilIface, nilSlice, &nilSlice,
		1, "s", true, 2.5, []int{1}, [2]int{1, 2}, map[int]int{1: 2}, map[string]interface{}{}, map[string]interface{}{"x": nil},
		map[string]interface{}{"x": nilPtr}, map[string]interface{}{"x": pp}, map[string]interface{}{"x": []interface{}{1, "a"}}, map[string]interface{}{"x": []interface{}{nil}},
		map[string]interface{}{"x": map[string]interface{}{"y": nil}}, map[string]interface{}{"x": make(chan int)}, map[string]interface{}{"x": func() {}}, map[string]interface{}{"x": complex(1, 2)},
		map[string]interface{}{"x": uintptr(1)}, map[string]interface{}{"x": cyc}, map[string]interface{}{"x": deep}, map[string]interface{}{"x": []*int{nil, &one}},
		map[string]interface{}{"x": map[string]*int{"a": nil}}, map[string]interface{}{"x": [0]int{}}, map[string]interface{}{"x": struct{}{}}, map[string]interface{}{"x": &one},
		map[string]interface{}{"x": time.Time{}}, map[string]interface{}{"x": (*time.Time)(nil)}, map[string]interface{}{"x": []time.Time{}}, map[string]interface{}{"x": map[bool]int{true: 1}},
		map[string]interface{}{"x": map[float64]string{1.5: "a"}}, map[string]interface{}{"x": map[interface{}]int{"a": 1}}, map[string]interface{}{"x": map[[2]int]int{{1, 2}: 1}},
		map[string]interface{}{"": 1}, map[string]interface{}{"if": 1, "len": 2}, map[string]interface{}{"a b": 1}, map[string]interface{}{"x": int8(-1), "y": uint64(1 << 63)},
		S{}, &S{}, S{A: &one, D: 1}, S{D: S{}}, T{}, &T{}, cyc, deep, *deep, struct{ X interface{} }{nilPtr}, struct{ x int }{1},
		map[string][]map[string][]int{"x": {{"y": {1}}}}, map[string]interface{}{"x": [][]interface{}{{1}, {"a"}}}, []interface{}{1}, map[int]interface{}{1: 1},
		reflect.ValueOf(1), map[string]interface{}{"x": reflect.ValueOf(1)}, fmt.Errorf("e"), map[string]interface{}{"x": fmt.Errorf("e")},
		// Go structs that are NOT environments: time.Time (a yae primitive), its pointer, durations, big structs of the standard library
		time.Time{}, time.Unix(1641092645, 0), &time.Time{}, (*time.Time)(nil), time.Second, reflect.TypeOf(1), struct{ T time.Time }{}, &struct{ T *time.Time }{}, [1]time.Time{}, []time.Time{{}},
	}
	return vals
}

func budget(src string) int64 {
	n := int64(utf8.RuneCountInString(src))
	return 200*(n+2)*(n+2) + 2000
}

type apiObs struct {
	panic    string
	exceeded bool
	steps    int64
	errText  string
	ok       bool
}

// callAPI runs one public entry point under the step budget and records how it ended.
func callAPI(src string, f func() error) apiObs {
	var o apiObs
	st, exceeded, _ := seams.CountSteps(budget(src), func() {
		defer func() {
			if r := recover(); r != nil {
				if _, isBudget := r.(seams.BudgetExceeded); !isBudget {
					o.panic = fmt.Sprint(r)
				}
			}
		}()
		if err := f(); err != nil {
			o.errText = err.Error()
		} else {
			o.ok = true
		}
	})
	o.steps, o.exceeded = st.Total, exceeded
	return o
}

func judgeAPI(res *engine.Result, src string, env interface{}) string {
	var outs []string
	run := func(name string, f func() error) {
		o := callAPI(src, f)
		res.Execs++
		switch {
		case o.exceeded:
			if len(res.Violations) < 6 {
				res.Violations = append(res.Violations, vf("work-superquadratic", "%s(%q): more than %d counted steps for an input of %d runes", name, trunc200(src), budget(src), utf8.RuneCountInString(src)))
			}
			outs = append(outs, name+"=BUDGET")
		case o.panic != "":
			if len(res.Violations) < 6 {
				res.Violations = append(res.Violations, vf("api-panic", "%s(%q) panicked: %s", name, trunc200(src), stable(o.panic)))
			}
			outs = append(outs, name+"=PANIC")
		case o.ok:
			outs = append(outs, name+"=value")
		default:
			outs = append(outs, name+"=error")
		}
	}
	run("Eval", func() error { _, err := yae.Eval(src, env); return err })
	run("Compile+call", func() error {
		c, err := yae.NewExpr().UseClosureCompiler().Compile(src, env)
		if err != nil {
			return err
		}
		_, err = c(env)
		return err
	})
	run("Debug", func() error {
		_, _, err := yae.Debug(src, env)
		return err
	})
	return strings.Join(outs, " ")
}

func (c12) Run(c *engine.Case) *engine.Result {
	res := &engine.Result{}
	outcomes := map[string]int{}
	one := func(src string, env interface{}) {
		engine.Heartbeat()
		res.States++
		oc := judgeAPI(res, src, env)
		outcomes[oc]++
	}
	tier := engine.CurrentTier
	switch c.Args[0] {
	case "tokens":
		env := c12Env()
		depth := 2
		if tier == "thorough" {
			depth = 3
		}
		if c.Args[1] == "short" {
			one("", env)
			for _, t := range c12Tokens {
				one(t, env)
			}
		} else {
			var rec func(s string, d int)
			rec = func(s string, d int) {
				one(s, env)
				if d == 0 {
					return
				}
				for _, t := range c12Tokens {
					rec(s+" "+t, d-1)
				}
			}
			rec(c.Args[1]+" "+c.Args[2], depth)
		}
		res.NonTrivial = true
	case "edits":
		env := c12Env()
		toks := lexForEdit(c.Src)
		var edits func(ts []string, rounds int)
		seen := map[string]bool{}
		edits = func(ts []string, rounds int) {
			s := strings.Join(ts, " ")
			if !seen[s] {
				seen[s] = true
				one(s, env)
			}
			if rounds == 0 {
				return
			}
			for i := 0; i <= len(ts); i++ {
				for _, t := range c12Tokens {
					edits(insertAt(ts, i, t), rounds-1)
				}
				if i < len(ts) {
					edits(append(append([]string(nil), ts[:i]...), ts[i+1:]...), rounds-1)
					edits(insertAt(ts, i, ts[i]), rounds-1)
					for _, t := range []string{")", "]", ":", ",", "+", "."} {
						r := append([]string(nil), ts...)
						r[i] = t
						edits(r, rounds-1)
					}
				}
			}
		}
		rounds := 1
		if tier == "thorough" {
			rounds = 2
		}
		edits(toks, rounds)
		res.NonTrivial = true
	case "seps":
		env := c12Env()
		toks := lexForEdit(c.Src)
		for _, sep := range []string{" ", "\t", "\r", "\n", "\r\n", "\v", "\f", "\u00a0", "\u2028", "\u3000", "  ", " \r "} {
			one(strings.Join(toks, sep), env)
			one(sep+strings.Join(toks, sep)+sep, env)
		}
		res.NonTrivial = true
	case "evalwork":
		return runC12Work(c)
	case "vmonly":
		// Debug's report is by design one line per recorded term (quadratic text for 16 k terms),
		// so only the default back end is driven here
		res.States++
		o := callAPI(c.Src, func() error {
			cb, err := yae.NewExpr().Compile(c.Src, c12Env())
			if err != nil {
				return err
			}
			_, err = cb(c12Env())
			return err
		})
		res.Execs++
		switch {
		case o.exceeded:
			res.Violations = append(res.Violations, vf("work-superquadratic", "Compile+call of %d additions followed by a conditional: step budget exceeded", strings.Count(c.Src, "+")))
		case o.panic != "":
			res.Violations = append(res.Violations, vf("api-panic", "Compile+call of %d additions followed by a conditional panicked: %s", strings.Count(c.Src, "+"), stable(o.panic)))
		}
		outcomes[fmt.Sprintf("ok=%v", o.ok)]++
		res.NonTrivial = true
	case "src":
		one(c.Src, c12Env())
		res.NonTrivial = true
	case "host":
		var i int
		fmt.Sscan(c.Args[1], &i)
		v := c12HostValues()[i]
		for _, src := range []string{"1", "x", "x + 1", "len(x)"} {
			one(src, v)
		}
		// a Callable compiled against a good environment, invoked with this value
		res.Execs++
		func() {
			defer func() {
				if r := recover(); r != nil {
					res.Violations = append(res.Violations, vf("api-panic", "Callable(host value #%d %T) panicked: %s", i, v, stable(fmt.Sprint(r))))
				}
			}()
			cb, err := yae.NewExpr().Compile("x + 1", map[string]interface{}{"x": 1})
			if err == nil {
				_, _ = cb(v)
			}
		}()
		res.NonTrivial = true
	}
	res.Outcome = fmt.Sprint(outcomes)
	return res
}

func insertAt(ts []string, i int, t string) []string {
	out := make([]string, 0, len(ts)+1)
	out = append(out, ts[:i]...)
	out = append(out, t)
	return append(out, ts[i:]...)
}

// lexForEdit splits a corpus program into tokens with the real lexer (whitespace-free pieces).
func lexForEdit(src string) []string {
	lx := real.NewLexer(real.ToOps(real.BuiltInOps()))
	r := lx.Lex(src)
	if r.Err != "" {
		return strings.Fields(src)
	}
	out := make([]string, len(r.Toks))
	for i, t := range r.Toks {
		out[i] = t.Lexeme
	}
	return out
}
