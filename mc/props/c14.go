package props

import (
	"encoding/json"
	"fmt"
	"os"
	"os/exec"
	"path/filepath"
	"strings"
	"time"

	"github.com/goghcrow/yae"

	"verif/mc/engine"
	"verif/mc/real"
	"verif/mc/ref"
	"verif/mc/sched"
)

// C14 — compiled expressions and independent engines are safe for concurrent use.
type c14 struct{}

func init() { engine.Register(c14{}) }

func (c14) ID() string { return "C14" }

func (c14) Meta(tier string) engine.Meta {
	return engine.Meta{
		Level: "model_checking",
		Rule: "stateless exploration of ALL interleavings of the synchronisation points (atomic type-variable counter, time-zone cache lock / unlock: build-tag hooks) of 2–3 real goroutines under a cooperative scheduler, preemption bound iterated 0,1,2,… to exhaustion (or to the schedule cap, reported); scenarios: two fresh engines compiling polymorphic calls; one initialised engine compiling two / three expressions; one Callable invoked by three threads on each back end (literals, thunks, lazy and polymorphic calls, a shared *val.Env); compile ‖ invoke on one engine; two / three strtotime calls on a zone that is not cached yet; three threads evaluating programs that together call every built-in. Oracles on every execution: vector-clock race detection over every hooked read / write (happens-before from spawn, lock release→acquire and atomics only — the scheduler's own hand-offs are not edges); every thread's outcome equals its outcome when run alone; replaying a schedule twice gives the same trace. Then a separate FREE-RUNNING pass of the same thread bodies on plain goroutines under `go test -race` (hooks inert): any DATA RACE report is a violation (this covers state no hook names). non-trivial = schedules with at least one preemption",
		Bound: "2–3 threads, 1–2 operations each; preemption bound reported per scenario",
		Assumptions: []string{"sequentially consistent memory; the C code of timelib is opaque to both passes", "CHESS reduction: scheduling at synchronisation operations only is complete when no data race exists, which the vector-clock detector and the -race pass check"},
	}
}

func (c14) Generate(tier string, yield func(*engine.Case) bool) {}

// Run replays one recorded schedule without the explorer.
func (c14) Run(c *engine.Case) *engine.Result {
	res := &engine.Result{NonTrivial: true}
	var d struct {
		Scenario string `json:"scenario"`
		Schedule []int  `json:"schedule"`
	}
	_ = json.Unmarshal(c.Data, &d)
	if d.Scenario == "race-pass" {
		// the free-running pass is re-run (up to three times: it is not scheduled by us)
		for i := 0; i < 3; i++ {
			sum, viol := runRacePass()
			res.Execs++
			res.Outcome = sum
			if viol != "" {
				res.Violations = append(res.Violations, vf("data-race", "%s", stableRace(viol)))
				break
			}
		}
		return res
	}
	for _, sc := range C14Scenarios() {
		if sc.Name != d.Scenario {
			continue
		}
		n := len(sc.Build())
		solo := make([]string, n)
		for i := 0; i < n; i++ {
			i := i
			x, err := sched.Run(sched.Scenario{Build: func() []sched.Body { return []sched.Body{sc.Build()[i]} }}, nil)
			if err == nil {
				solo[i] = x.Outcomes[0]
			}
		}
		x, err := sched.Run(sc, d.Schedule)
		res.Execs++
		if err != nil {
			res.Violations = append(res.Violations, vf("scheduler-error", "%v", err))
			return res
		}
		res.Outcome = strings.Join(x.Outcomes, " ‖ ") + " trace=" + strings.Join(x.Trace, ",")
		for _, r := range x.Races {
			res.Violations = append(res.Violations, vf("data-race", "%s", r))
		}
		for i, o := range x.Outcomes {
			if o != solo[i] {
				res.Violations = append(res.Violations, vf("outcome-differs-from-solo", "thread %d gives %s, alone %s", i, o, solo[i]))
			}
		}
	}
	return res
}

var c14Progs = []string{
	`if(x > 0, [x, 1], [2]) == [1, 1]`,
	`len(union([x], [1, 2])) + max([x, 3]) + len(string(["a": x]))`,
	`second(x, if(x == 1, "one", "other")) + string(x)`,
	`get(["k": x], "k", 0) + (x > 0 && x < 5 ? 1 : 0)`,
}

var c14Fresh int

func outcomeOf(v interface{}, err error) string {
	if err != nil {
		return "ERROR " + stable(err.Error())
	}
	return fmt.Sprint(v)
}

func compileBody(e *yae.Expr, src string) sched.Body {
	return func() string {
		cb, err := e.Compile(src, map[string]interface{}{"x": 1})
		if err != nil {
			return "ERROR " + stable(err.Error())
		}
		v, err := cb(map[string]interface{}{"x": 1})
		return outcomeOf(v, err)
	}
}

func newHostEngine(b real.Backend) *yae.Expr { return real.NewEngine(b, real.QuietHost()) }

// C14Scenarios: shared with the free-running -race pass (mc/racepass).
func C14Scenarios() []sched.Scenario {
	var out []sched.Scenario
	out = append(out, sched.Scenario{Name: "two-engines-compile", Build: func() []sched.Body {
		return []sched.Body{compileBody(newHostEngine(real.VMSwitch), c14Progs[0]), compileBody(newHostEngine(real.VMSwitch), c14Progs[1])}
	}})
	out = append(out, sched.Scenario{Name: "three-engines-compile", Build: func() []sched.Body {
		return []sched.Body{compileBody(newHostEngine(real.VMSwitch), c14Progs[0]), compileBody(newHostEngine(real.Closure), c14Progs[2]), compileBody(newHostEngine(real.Interp), c14Progs[3])}
	}})
	out = append(out, sched.Scenario{Name: "one-initialised-engine-two-compiles", Build: func() []sched.Body {
		e := newHostEngine(real.VMSwitch)
		_, _ = e.Compile("1", nil) // first compilation finished before the threads start
		return []sched.Body{compileBody(e, c14Progs[0]), compileBody(e, c14Progs[2])}
	}})
	out = append(out, sched.Scenario{Name: "one-initialised-engine-three-compiles", Build: func() []sched.Body {
		e := newHostEngine(real.Closure)
		_, _ = e.Compile("1", nil)
		return []sched.Body{compileBody(e, c14Progs[1]), compileBody(e, c14Progs[1]), compileBody(e, c14Progs[3])}
	}})
	for _, b := range real.Backends {
		b := b
		out = append(out, sched.Scenario{Name: "one-callable-three-invocations-" + string(b), Build: func() []sched.Body {
			e := newHostEngine(b)
			cb, err := e.Compile(c14Progs[2]+" + string(get(["+`"k"`+": x], \"k\", 0))", map[string]interface{}{"x": 1})
			body := func(x int) sched.Body {
				return func() string {
					if err != nil {
						return "ERROR " + err.Error()
					}
					v, err := cb(map[string]interface{}{"x": x})
					return outcomeOf(v, err)
				}
			}
			return []sched.Body{body(1), body(2), body(1)}
		}})
	}
	out = append(out, sched.Scenario{Name: "one-callable-shared-env-object", Build: func() []sched.Body {
		e := newHostEngine(real.VMSwitch)
		spec := c13Spec()
		cb, err := e.Compile(c13Exprs[2], spec.RawTypeEnv())
		shared := spec.RawValEnv()
		body := func() string {
			if err != nil {
				return "ERROR " + err.Error()
			}
			v, err := cb(shared)
			return outcomeOf(v, err)
		}
		return []sched.Body{body, body, body}
	}})
	out = append(out, sched.Scenario{Name: "compile-while-invoking", Build: func() []sched.Body {
		e := newHostEngine(real.VMSwitch)
		cb, err := e.Compile(c14Progs[3], map[string]interface{}{"x": 1})
		inv := func() string {
			if err != nil {
				return "ERROR " + err.Error()
			}
			v, err := cb(map[string]interface{}{"x": 3})
			return outcomeOf(v, err)
		}
		return []sched.Body{inv, compileBody(e, c14Progs[0]), inv}
	}})
	strtotime := func(zone string) sched.Body {
		return func() string {
			v, err := yae.Eval(`strtotime("2022-01-02 03:04:05 `+zone+`") - strtotime("2022-01-02 03:04:05 UTC")`, nil)
			return outcomeOf(v, err)
		}
	}
	out = append(out, sched.Scenario{Name: "strtotime-uncached-zone", Build: func() []sched.Body {
		// a different zone per execution index would need a counter; the first execution populates the
		// cache, later ones take the hit path — both paths are explored across scenarios
		return []sched.Body{strtotime("Asia/Tokyo"), strtotime("Europe/Paris"), strtotime("Asia/Tokyo")}
	}})
	// every built-in, concurrently (hidden process-wide state inside any of them shows in the -race pass)
	sink := []string{
		`[abs(-x), round(x + 0.5), ceil(x + 0.2), floor(x + 0.8), max(x, 2), max([x, 2]), min(x, 2), min([2, x]), len([x]), len(["a": x]), len("ab"), x + 2, x - 2, x * 3, 4 / x, 5 % (x + 1), 2 ^ x, -x, +x]`,
		`[match("a+b" + string(x), "aab1"), match("^é", "é日"), "a" + "b" == "ab", "a" != "b", x == 1, x != 2, x < 2, x <= 1, x > 0, x >= 1, true == true, true != false, !false, x > 0 && x < 3, x < 0 || x > 0, isset(["k": x], "k"), [x] == [1], [x] != [2], ["k": x] == ["k": 1], ["k": x] != ["k": 2]]`,
		`[string(x), string([x, 2]), string(["k": x]), string({a: x}), if(x > 0, "p", "n"), x > 0 ? "p" : "n", string(get([x], 0, 9)), string(get(["k": x], "z", 9)), string(union([x, 2], [2, 3])), string(intersect([x, 2], [2, 3])), string(diff([x, 2], [2, 3]))]`,
		`[strtotime("2022-01-02 03:04:05") == '2022-01-02 03:04:05', '2022-01-02' < '2022-01-03', '2022-01-02' <= '2022-01-02', '2022-01-03' > '2022-01-02', '2022-01-03' >= '2022-01-03', '2022-01-02' != '2022-01-03', ('2022-01-03' - '2022-01-02') == 86400]`,
	}
	out = append(out, sched.Scenario{Name: "every-builtin-three-threads", Build: func() []sched.Body {
		mk := func(i int) sched.Body {
			return func() string {
				v, err := yae.Eval(sink[i%len(sink)], map[string]interface{}{"x": 1})
				return outcomeOf(v, err)
			}
		}
		return []sched.Body{mk(0), mk(1), mk(1)}
	}})
	out = append(out, sched.Scenario{Name: "every-builtin-three-threads-b", Build: func() []sched.Body {
		mk := func(i int) sched.Body {
			return func() string {
				v, err := yae.Eval(sink[i%len(sink)], map[string]interface{}{"x": 1})
				return outcomeOf(v, err)
			}
		}
		return []sched.Body{mk(2), mk(3), mk(2)}
	}})
	// inputs no earlier execution has seen (caches keyed by input are cold every time)
	out = append(out, sched.Scenario{Name: "fresh-inputs-every-execution", Build: func() []sched.Body {
		c14Fresh++
		k := c14Fresh
		mk := func(suffix string) sched.Body {
			return func() string {
				env := map[string]interface{}{"p": fmt.Sprintf("a+b%d%s", k, suffix), "s": fmt.Sprintf("aab%d%s", k, suffix), "t": fmt.Sprintf("2022-01-02 03:04:%02d", k%60)}
				v, err := yae.Eval(`[string(match(p, s)), string(len(p) > 3), string(strtotime(t) == strtotime(t))]`, env)
				return outcomeOf(v, err)
			}
		}
		return []sched.Body{mk(""), mk(""), mk("x")}
	}})
	// one parsed tree handed to two engines that compile it against differently typed environments
	out = append(out, sched.Scenario{Name: "one-parsed-tree-two-engines", Build: func() []sched.Body {
		tree := newHostEngine(real.VMSwitch).Parse(`[[x, y], [y, x]][0][k] == get([x, y], k, x)`)
		body := func(b real.Backend, spec real.EnvSpec) sched.Body {
			return func() (out string) {
				defer func() {
					if r := recover(); r != nil {
						out = "PANIC " + stable(fmt.Sprint(r))
					}
				}()
				cl := newHostEngine(b).CompileExpr(tree, spec.RawTypeEnv())
				v := cl(real.RuntimeEnv(real.QuietHost(), spec))
				return fmt.Sprint(v, " : ", v.Type)
			}
		}
		nums := real.EnvSpec{Rep: "raw", Binds: []real.Binding{{Name: "x", V: ref.NumV(1)}, {Name: "y", V: ref.NumV(2)}, {Name: "k", V: ref.NumV(0)}}}
		strs := real.EnvSpec{Rep: "raw", Binds: []real.Binding{{Name: "x", V: ref.StrV("a")}, {Name: "y", V: ref.StrV("b")}, {Name: "k", V: ref.NumV(1)}}}
		return []sched.Body{body(real.VMSwitch, nums), body(real.Closure, strs), body(real.Interp, nums)}
	}})
	// an invocation that fails inside a lazily evaluated argument, followed by invocations that
	// overlap at host-function calls (state released on the error path must not be handed out twice)
	out = append(out, sched.Scenario{Name: "failure-in-thunk-then-overlapping-invocations", Build: func() []sched.Body {
		e := newHostEngine(real.VMSwitch)
		env := map[string]interface{}{"x": 3, "l": []int{1, 2}}
		failing, err1 := e.Compile(`second(x, l[9]) + 1`, env)
		a, err2 := e.Compile(`id(x) * 10 + id(l[1])`, env)
		b, err3 := e.Compile(`(id(x + 5) - id(l[0])) * 2 - 1`, env)
		run := func(cbs ...yae.Callable) sched.Body {
			return func() string {
				if err1 != nil || err2 != nil || err3 != nil {
					return fmt.Sprint("ERROR compile ", err1, err2, err3)
				}
				var outs []string
				for _, cb := range cbs {
					v, err := cb(env)
					outs = append(outs, outcomeOf(v, err))
				}
				return strings.Join(outs, " | ")
			}
		}
		return []sched.Body{run(failing, a), run(b)}
	}})
	out = append(out, sched.Scenario{Name: "debug-and-eval", Build: func() []sched.Body {
		return []sched.Body{
			func() string { v, rep, err := yae.Debug("x + 1 > 1", map[string]interface{}{"x": 1}); return outcomeOf(fmt.Sprint(v, len(rep)), err) },
			func() string { v, rep, err := yae.Debug(`len("ab") == x`, map[string]interface{}{"x": 2}); return outcomeOf(fmt.Sprint(v, len(rep)), err) },
			func() string { v, err := yae.Eval("if(x > 0, [x], [])== [1]", map[string]interface{}{"x": 1}); return outcomeOf(v, err) },
		}
	}})
	return out
}

func (c14) Explore(tier string, seed int64, deadlineSec int) *engine.Report {
	rep := &engine.Report{ByClass: map[string]int64{}, ByFamily: map[string]int64{}, Outcomes: map[uint64]struct{}{}, Exhaustive: true, Workers: 1, Extra: map[string]interface{}{}}
	deadline := time.Now().Add(time.Duration(deadlineSec) * time.Second)
	maxSched := 3000
	if tier == "thorough" {
		maxSched = 600000
	}
	perScenario := map[string]interface{}{}
	addViol := func(scn, class, detail string, choices []int) {
		rep.ByClass[class]++
		rep.Violating++
		b, _ := json.Marshal(map[string]interface{}{"scenario": scn, "schedule": choices})
		rep.AddViolation(&engine.Case{Family: "schedule-" + scn, Key: fmt.Sprint(choices), Args: []string{scn}, Data: b}, class, detail)
	}
	for _, sc := range C14Scenarios() {
		// solo outcomes: every thread alone
		n := len(sc.Build())
		solo := make([]string, n)
		for i := 0; i < n; i++ {
			i := i
			one := sched.Scenario{Name: sc.Name + "-solo", Build: func() []sched.Body { return []sched.Body{sc.Build()[i]} }}
			x, err := sched.Run(one, nil)
			if err != nil {
				addViol(sc.Name, "scheduler-error", err.Error(), nil)
				continue
			}
			solo[i] = x.Outcomes[0]
			rep.Execs++
		}
		// determinism: the same schedule twice
		a, _ := sched.Run(sc, nil)
		b, _ := sched.Run(sc, nil)
		rep.Execs += 2
		if a != nil && b != nil && (strings.Join(a.Trace, ",") != strings.Join(b.Trace, ",") || strings.Join(a.Outcomes, "|") != strings.Join(b.Outcomes, "|")) {
			// the time-zone cache is process-wide: the first execution fills it. A second pair must agree.
			c, _ := sched.Run(sc, nil)
			if c != nil && strings.Join(c.Trace, ",") != strings.Join(b.Trace, ",") {
				addViol(sc.Name, "nondeterministic-replay", fmt.Sprintf("the default schedule gave traces %v and %v", b.Trace, c.Trace), nil)
			}
		}
		st := &sched.Stats{OutcomeVecs: map[string]int{}}
		completed := -1
		var lastCount int
		violated := false
		for bound := 0; ; bound++ {
			bst := &sched.Stats{OutcomeVecs: map[string]int{}}
			err := sched.Explore(sc, bound, maxSched, bst, func(x *sched.Exec, choices []int) bool {
				rep.Execs++
				rep.States++
				pre := 0
				for _, p := range x.Points {
					if p.Chosen != 0 && p.Running >= 0 && p.Enabled[0] == p.Running {
						pre++
					}
				}
				if pre > 0 {
					rep.NonTrivial++
				}
				rep.Outcomes[engine.Hash64(sc.Name, strings.Join(x.Outcomes, "|"))] = struct{}{}
				for _, r := range x.Races {
					addViol(sc.Name, "data-race", r, choices)
					violated = true
				}
				for i, o := range x.Outcomes {
					if i < len(solo) && o != solo[i] {
						cls := "outcome-differs-from-solo"
						if x.Deadlock {
							cls = "deadlock"
						}
						addViol(sc.Name, cls, fmt.Sprintf("thread %d gives %s, alone it gives %s", i, trunc200(o), trunc200(solo[i])), choices)
						violated = true
					}
				}
				return !violated && time.Now().Before(deadline)
			})
			if err != nil {
				addViol(sc.Name, "scheduler-error", err.Error(), nil)
				break
			}
			*st = *bst
			if violated || time.Now().After(deadline) {
				if !violated {
					rep.Exhaustive = false
				}
				break
			}
			if bst.Capped {
				rep.Exhaustive = false
				break
			}
			completed = bound
			if bound > 0 && bst.Schedules == lastCount {
				st.Exhausted = true // a larger bound adds no schedule: the space is exhausted
				break
			}
			lastCount = bst.Schedules
		}
		rep.Cases++
		rep.ByFamily[sc.Name] += int64(st.Schedules)
		perScenario[sc.Name] = map[string]interface{}{"threads": n, "schedules_at_last_bound": st.Schedules, "sync_points_max": st.MaxPoints, "preemption_bound_completed": completed, "space_exhausted": st.Exhausted, "distinct_outcome_vectors": len(st.OutcomeVecs)}
		rep.AddSample(&engine.Case{Family: sc.Name, Key: fmt.Sprintf("threads=%d", n)}, fmt.Sprintf("bound %d completed, %d schedules, outcomes %v", completed, st.Schedules, keysOf(st.OutcomeVecs)))
	}
	rep.Extra["scenarios"] = perScenario
	// ---- the free-running -race pass
	raceOut, raceErr := runRacePass()
	rep.Extra["race_pass"] = raceOut
	if raceErr != "" {
		addViol("race-pass", "data-race", stableRace(raceErr), nil)
	}
	return rep
}

func keysOf(m map[string]int) []string {
	var out []string
	for k := range m {
		out = append(out, trunc200(k))
	}
	return out
}

func runRacePass() (summary string, violation string) {
	root := os.Getenv("VERIF_ROOT")
	if root == "" {
		root = "/verif"
	}
	cmd := exec.Command("go", "test", "-race", "-tags", "verif", "-vet=off", "-count=1", "-run", "TestRacePass", "./racepass/")
	cmd.Dir = filepath.Join(root, "mc")
	cmd.Env = append(os.Environ(), "GOFLAGS=-mod=mod", "GOPROXY=off", "GOSUMDB=off", "GOTOOLCHAIN=local", "TZ=UTC", "CGO_ENABLED=1")
	t0 := time.Now()
	out, err := cmd.CombinedOutput()
	s := string(out)
	summary = fmt.Sprintf("go test -race ./racepass: %.1fs, exit error=%v", time.Since(t0).Seconds(), err != nil)
	if strings.Contains(s, "WARNING: DATA RACE") {
		i := strings.Index(s, "WARNING: DATA RACE")
		end := i + 1800
		if end > len(s) {
			end = len(s)
		}
		return summary, "free-running -race pass: " + s[i:end]
	}
	if strings.Contains(s, "concurrent map") {
		return summary, "free-running -race pass: " + trunc200(s[strings.Index(s, "concurrent map"):])
	}
	if err != nil {
		if strings.Contains(s, "OUTCOME-MISMATCH") {
			return summary, "free-running pass: " + trunc200(s[strings.Index(s, "OUTCOME-MISMATCH"):])
		}
		// build failure or other infrastructure problem: not a property verdict
		return summary + " (pass could not run: " + trunc200(s) + ")", ""
	}
	return summary, ""
}

// stableRace keeps the part of a race report that does not change between runs (no addresses,
// goroutine numbers).
func stableRace(s string) string {
	var keep []string
	for _, l := range strings.Split(s, "\n") {
		l = strings.TrimSpace(l)
		if strings.HasPrefix(l, "github.com/") || strings.HasPrefix(l, "verif/") || strings.HasPrefix(l, "runtime.") {
			keep = append(keep, l)
		}
		if len(keep) >= 8 {
			break
		}
	}
	return "DATA RACE involving: " + strings.Join(keep, " <- ")
}
