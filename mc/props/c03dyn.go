package props

import (
	"fmt"
	"strings"

	"github.com/goghcrow/yae"
	"github.com/goghcrow/yae/types"
	"github.com/goghcrow/yae/val"

	"verif/mc/engine"
	"verif/mc/gen"
	"verif/mc/real"
	"verif/mc/ref"
)

// Dynamic calls through function-typed values (raw environments only) and repeated invocation of
// one compiled expression with a sequence of different environments.

var dynPrograms = []string{
	"if(c, f, g)(10)",
	"[f, g][i](10)",
	"[f][0](10)",
	"if(c, f, g)(if(c, g, f)(1))",
	"[f, g][i](tr(1, 2)) + [g, f][i](tr(2, 3))",
	"if(c, f, g)(10) + n",
	"if(c, [n, 1], [2, n])[i]",
	"if(c, m, [\"a\": 5])[\"a\"] + get(mb, 7)",
	"if(c, lz, lz)(tr(1, 1), tr(2, 2))",
	"if(c, h2, h2)(tr(1, 1), tr(2, 2)) + [h2][0](tr(3, 3), [f, g][i](tr(4, 4)))",
	"[h2, h2][i](if(c, f, g)(tr(1, 1)), tr(2, n))",
}

// dynVariants: the environments a history is drawn from (same types, different values).
func dynTypeEnv() *types.Env {
	fT := types.Fun("f", []*types.Type{types.Num}, types.Num)
	lzT := types.Fun("lz", []*types.Type{types.Num, types.Num}, types.Num)
	e := types.NewEnv()
	e.Put("c", types.Bool)
	e.Put("i", types.Num)
	e.Put("n", types.Num)
	e.Put("f", fT)
	e.Put("g", fT)
	e.Put("lz", lzT)
	e.Put("h2", types.Fun("h2", []*types.Type{types.Num, types.Num}, types.Num))
	e.Put("m", types.Map(types.Str, types.Num))
	e.Put("mb", types.Maybe(types.Num))
	return e
}

func dynValEnv(variant int, h *real.Host) *val.Env {
	fT := types.Fun("f", []*types.Type{types.Num}, types.Num)
	lzT := types.Fun("lz", []*types.Type{types.Num, types.Num}, types.Num)
	logf := func(f string, a ...interface{}) { *h.Trace = append(*h.Trace, fmt.Sprintf(f, a...)) }
	add := func(name string, k float64) *val.Val {
		return val.Fun(fT, func(x ...*val.Val) *val.Val {
			logf("%s(%v)", name, x[0].Num().V)
			return val.Num(x[0].Num().V + k)
		})
	}
	lz := val.LazyFun(lzT, func(x ...*val.Val) *val.Val {
		logf("lz")
		return x[1].Fun().Call()
	})
	e := val.NewEnv()
	m := val.Map(types.Map(types.Str, types.Num).Map()).Map()
	switch variant {
	case 0:
		e.Put("c", val.True)
		e.Put("i", val.Num(0))
		e.Put("n", val.Num(100))
		e.Put("f", add("f", 1))
		e.Put("g", add("g", 2))
		m.Put(val.Str("a"), val.Num(1))
		e.Put("mb", val.Nothing(types.Num))
	case 1:
		e.Put("c", val.False)
		e.Put("i", val.Num(1))
		e.Put("n", val.Num(200))
		e.Put("f", add("f", 1))
		e.Put("g", add("g", 2))
		m.Put(val.Str("a"), val.Num(2))
		e.Put("mb", val.Just(types.Num, val.Num(3)))
	default:
		e.Put("c", val.True)
		e.Put("i", val.Num(1))
		e.Put("n", val.Num(300))
		e.Put("f", add("f'", 10)) // same names, other functions
		e.Put("g", add("g'", 20))
		m.Put(val.Str("a"), val.Num(3))
		m.Put(val.Str("b"), val.Num(4))
		e.Put("mb", val.Just(types.Num, val.Num(5)))
	}
	e.Put("m", m.Vl())
	e.Put("lz", lz)
	e.Put("h2", val.Fun(types.Fun("h2", []*types.Type{types.Num, types.Num}, types.Num), func(x ...*val.Val) *val.Val {
		logf("h2(%v,%v)", x[0].Num().V, x[1].Num().V)
		return val.Num(x[0].Num().V*10 + x[1].Num().V)
	}))
	return e
}

func dynCases(yield func(*engine.Case)) {
	var hists [][]int
	var rec func(h []int)
	rec = func(h []int) {
		if len(h) > 0 {
			hists = append(hists, append([]int(nil), h...))
		}
		if len(h) == 3 {
			return
		}
		for v := 0; v < 3; v++ {
			rec(append(h, v))
		}
	}
	rec(nil)
	for pi, src := range dynPrograms {
		for _, h := range hists {
			hs := make([]string, len(h))
			for i, v := range h {
				hs[i] = fmt.Sprint(v)
			}
			yield(&engine.Case{Family: "dynamic-history", Key: fmt.Sprintf("p%d|%s", pi, strings.Join(hs, ",")), Src: src, Args: append([]string{"dyn", fmt.Sprint(pi)}, hs...)})
		}
	}
}

// runDyn: compile once per back end, invoke along the history, compare the per-step outcome and
// host-call trace across back ends.
func runDyn(c *engine.Case) *engine.Result {
	res := &engine.Result{NonTrivial: true}
	type stepObs struct{ outcome, trace string }
	var per [][]stepObs
	for _, b := range real.Backends {
		h := real.StdHost()
		e := real.NewEngine(b, h)
		var steps []stepObs
		var callable yae.Callable
		o := &real.Obs{}
		func() {
			defer func() {
				if r := recover(); r != nil {
					o.Panic, o.Stage = fmt.Sprint(r), "compile"
				}
			}()
			var err error
			callable, err = e.Compile(c.Src, dynTypeEnv())
			if err != nil {
				o.CompileErr = err.Error()
			}
		}()
		res.Execs++
		if callable == nil {
			steps = append(steps, stepObs{(&BackendObs{Obs: o}).Outcome(), ""})
			per = append(per, steps)
			continue
		}
		for _, vs := range c.Args[2:] {
			var v int
			fmt.Sscan(vs, &v)
			so := &real.Obs{}
			so.Invoke(callable, dynValEnv(v, h), h)
			res.Execs++
			bo := &BackendObs{Obs: so}
			if so.Val != nil {
				bo.Val, bo.ValErr = real.FromVal(so.Val)
			}
			steps = append(steps, stepObs{bo.Outcome(), strings.Join(so.Trace, ";")})
		}
		per = append(per, steps)
	}
	var outs []string
	for bi, b := range real.Backends {
		xs := make([]string, len(per[bi]))
		for i, s := range per[bi] {
			xs[i] = s.outcome
		}
		outs = append(outs, string(b)+"="+strings.Join(xs, ","))
	}
	res.Outcome = strings.Join(outs, " ; ")
	base := per[0]
	for bi := 1; bi < len(per); bi++ {
		for i := range base {
			if i >= len(per[bi]) {
				break
			}
			if base[i].outcome != per[bi][i].outcome {
				cls := "backend-outcome-mismatch"
				if strings.Contains(per[bi][i].outcome, "over exec limit") {
					cls = "callthread-exec-limit"
				}
				res.Violations = append(res.Violations, vf(cls, "%s, invocation %d of history %v: %s gives %s but %s gives %s", c.Src, i+1, c.Args[2:], real.Backends[0], base[i].outcome, real.Backends[bi], per[bi][i].outcome))
				break
			}
			if base[i].trace != per[bi][i].trace {
				res.Violations = append(res.Violations, vf("backend-trace-mismatch", "%s, invocation %d of history %v: host calls on %s = [%s], on %s = [%s]", c.Src, i+1, c.Args[2:], real.Backends[0], base[i].trace, real.Backends[bi], per[bi][i].trace))
				break
			}
		}
	}
	return res
}

// verifyDyn (C11): bytecode of the dynamic-call programs, compiled against the function-typed
// raw environment.
func verifyDyn(c *engine.Case) *engine.Result {
	res := &engine.Result{Execs: 1, NonTrivial: true}
	h := real.StdHost()
	code, accepted, refused, msg := real.CompileBytecodeRaw(h, c.Src, dynTypeEnv())
	if !accepted || refused || code == nil {
		res.Outcome = "not-compiled: " + stable(msg)
		if accepted && !refused {
			res.Violations = append(res.Violations, vf("codegen-panic", "%s: %s", c.Src, stable(msg)))
		}
		return res
	}
	vars := map[string]*gen.Ty{}
	dynTypeEnv().ForEach(func(n string, t *types.Type) {
		if gt, err := real.FromType(t, nil); err == nil {
			vars[n] = gt
		}
	})
	st := &ref.BCStats{}
	env := real.BCEnvFor(real.EnvSpec{})
	env.Vars = vars
	if err := ref.VerifyBC(real.ToBCProgram(code), env, nil, st, 0); err != nil {
		res.Violations = append(res.Violations, vf("bytecode-unsafe", "%s: %v", c.Src, err))
	}
	res.States = st.Instructions
	res.Outcome = fmt.Sprintf("ok jumps=%d thunks=%d", st.Jumps, st.Thunks)
	return res
}
