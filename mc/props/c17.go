package props

import (
	"encoding/json"
	"fmt"

	"github.com/goghcrow/yae/types"

	"verif/mc/engine"
	"verif/mc/gen"
	"verif/mc/real"
)

// C17 — unification and type equality are sound.
type c17 struct{}

func init() { engine.Register(c17{}) }

func (c17) ID() string { return "C17" }

func (c17) Meta(tier string) engine.Meta {
	b := "all ordered pairs of types of depth<=1 (width<=2) over {num,str,bool,time,⊥,'a,'b} × {list,maybe,map,obj{x}/obj{x,y}/obj{y,x},fun}; all ordered pairs of the reduced depth-2 set (590 types, any constructors); all pairs of 2-tuples over 14 member types (tree-shaped and pointer-shared DAG-shaped)"
	if tier == "thorough" {
		b += "; all Equals triples over a 60-type set"
	}
	return engine.Meta{
		Level: "model_checking",
		Rule:  "odometer over type descriptions, each pair built as real *types.Type (variables shared between both sides); non-trivial = at least one side composite or a variable",
		Bound: b,
		Assumptions: []string{
			"⊥ / ⊤ asymmetry mirrored from the documented rule: a ⊥ on the right side and a ⊤ on the left side unify with anything",
			"completeness (success iff an instantiation exists) is only demanded for pattern-vs-variable-free pairs without ⊥/⊤, as the property states",
		},
	}
}

type c17Data struct {
	X, Y, Z *gen.Ty
}

func (c17) Generate(tier string, yield func(*engine.Case) bool) {
	emit := func(fam string, x, y, z *gen.Ty) bool {
		d := c17Data{x, y, z}
		key := x.String() + " ~ " + y.String()
		if z != nil {
			key += " ~ " + z.String()
		}
		return yield(&engine.Case{Family: fam, Key: key, Lazy: func() json.RawMessage { b, _ := json.Marshal(d); return b }})
	}
	d1 := gen.Depth1All()
	for _, x := range d1 {
		for _, y := range d1 {
			if !emit("pair-d1", x, y, nil) {
				return
			}
		}
	}
	// objects whose field names run into one another when written without a separator
	{
		N, S := gen.Num, gen.Str
		F := gen.F
		names := []*gen.Ty{
			gen.Obj(F("ab", N), F("c", S)), gen.Obj(F("a", N), F("bc", S)), gen.Obj(F("c", S), F("ab", N)), gen.Obj(F("bc", S), F("a", N)),
			gen.Obj(F("xy", N)), gen.Obj(F("x", N), F("y", N)), gen.Obj(F("y", N), F("x", N)), gen.Obj(F("a", N), F("b", N), F("c", N)), gen.Obj(F("abc", N)),
			gen.Obj(F("a", N), F("b", gen.Var("a"))), gen.Obj(F("ab", gen.Var("a"))), gen.Obj(F("", N), F("a", N)), gen.Obj(F("a", N), F("", N)),
		}
		var all []*gen.Ty
		for _, t := range names {
			all = append(all, t, gen.List(t), gen.Map(S, t))
		}
		for _, x := range all {
			for _, y := range all {
				if !emit("pair-names", x, y, nil) {
					return
				}
			}
		}
	}
	d2 := gen.Depth2Reduced()
	for _, x := range d2 {
		for _, y := range d2 {
			if !emit("pair-d2", x, y, nil) {
				return
			}
		}
	}
	// depth-1 against depth-2 (occurs check, variable against deeper structure)
	for _, x := range gen.Atoms7() {
		for _, y := range d2 {
			if !emit("pair-d0d2", x, y, nil) || !emit("pair-d0d2", y, x, nil) {
				return
			}
		}
	}
	tm := gen.TupleMembers()
	for _, fam := range []string{"tuple", "tuple-dag"} {
		for _, a := range tm {
			for _, b := range tm {
				for _, c := range tm {
					for _, d := range tm {
						if !emit(fam, gen.Tuple(a, b), gen.Tuple(c, d), nil) {
							return
						}
					}
				}
			}
		}
	}
	if tier == "thorough" {
		var s60 []*gen.Ty
		for i, t := range d1 {
			if i%4 == 0 || t.Depth() == 0 || t.K == gen.KObj {
				s60 = append(s60, t)
			}
			if len(s60) >= 60 {
				break
			}
		}
		for _, x := range s60 {
			for _, y := range s60 {
				for _, z := range s60 {
					if !emit("triple", x, y, z) {
						return
					}
				}
			}
		}
	}
}

// rel is equality relaxed exactly where the documented rule relaxes it: a ⊥ on the right side and
// a ⊤ on the left side stand for anything (but not for an unbound variable on the other side, which
// would have been bound).
func rel(x, y *gen.Ty) bool {
	if y.K == gen.KBot && x.K != gen.KVar {
		return true
	}
	if x.K == gen.KTop && y.K != gen.KVar {
		return true
	}
	if x.K != y.K {
		return false
	}
	switch x.K {
	case gen.KVar:
		return x.Name == y.Name
	case gen.KList, gen.KMaybe:
		return rel(x.El, y.El)
	case gen.KMap:
		return rel(x.Key, y.Key) && rel(x.Val, y.Val)
	case gen.KObj:
		if len(x.Fields) != len(y.Fields) {
			return false
		}
		for _, f := range x.Fields {
			g := y.Field(f.Name)
			if g == nil || !rel(f.T, g) {
				return false
			}
		}
		return true
	case gen.KFun, gen.KTuple:
		if len(x.Params) != len(y.Params) {
			return false
		}
		for i := range x.Params {
			if !rel(x.Params[i], y.Params[i]) {
				return false
			}
		}
		if x.K == gen.KFun {
			return rel(x.Ret, y.Ret)
		}
		return true
	}
	return true
}

// closure applies σ until fixpoint; reports a cycle (a variable reachable from its own image).
func closure(t *gen.Ty, s map[string]*gen.Ty, onPath map[string]bool) (*gen.Ty, error) {
	switch t.K {
	case gen.KVar:
		r, ok := s[t.Name]
		if !ok {
			return t, nil
		}
		if r.K == gen.KVar && r.Name == t.Name {
			return t, nil // identity binding
		}
		if onPath[t.Name] {
			return nil, fmt.Errorf("variable '%s is reachable from its own binding", t.Name)
		}
		onPath[t.Name] = true
		defer delete(onPath, t.Name)
		return closure(r, s, onPath)
	case gen.KList:
		e, err := closure(t.El, s, onPath)
		if err != nil {
			return nil, err
		}
		return gen.List(e), nil
	case gen.KMaybe:
		e, err := closure(t.El, s, onPath)
		if err != nil {
			return nil, err
		}
		return gen.Maybe(e), nil
	case gen.KMap:
		k, err := closure(t.Key, s, onPath)
		if err != nil {
			return nil, err
		}
		v, err := closure(t.Val, s, onPath)
		if err != nil {
			return nil, err
		}
		return gen.Map(k, v), nil
	case gen.KObj:
		fs := make([]gen.FieldTy, len(t.Fields))
		for i, f := range t.Fields {
			ft, err := closure(f.T, s, onPath)
			if err != nil {
				return nil, err
			}
			fs[i] = gen.FieldTy{Name: f.Name, T: ft}
		}
		return gen.Obj(fs...), nil
	case gen.KFun, gen.KTuple:
		ps := make([]*gen.Ty, len(t.Params))
		for i, p := range t.Params {
			pt, err := closure(p, s, onPath)
			if err != nil {
				return nil, err
			}
			ps[i] = pt
		}
		if t.K == gen.KFun {
			r, err := closure(t.Ret, s, onPath)
			if err != nil {
				return nil, err
			}
			return gen.Fun(t.Name, ps, r), nil
		}
		return gen.Tuple(ps...), nil
	}
	return t, nil
}

// refMatch: one-way matching of a pattern against a variable-free type (fields by name).
func refMatch(p, g *gen.Ty, b map[string]*gen.Ty) bool {
	if p.K == gen.KVar {
		if old, ok := b[p.Name]; ok {
			return gen.Equal(old, g)
		}
		b[p.Name] = g
		return true
	}
	if p.K != g.K {
		return false
	}
	switch p.K {
	case gen.KList, gen.KMaybe:
		return refMatch(p.El, g.El, b)
	case gen.KMap:
		return refMatch(p.Key, g.Key, b) && refMatch(p.Val, g.Val, b)
	case gen.KObj:
		if len(p.Fields) != len(g.Fields) {
			return false
		}
		for _, f := range p.Fields {
			gt := g.Field(f.Name)
			if gt == nil || !refMatch(f.T, gt, b) {
				return false
			}
		}
		return true
	case gen.KFun, gen.KTuple:
		if len(p.Params) != len(g.Params) {
			return false
		}
		for i := range p.Params {
			if !refMatch(p.Params[i], g.Params[i], b) {
				return false
			}
		}
		if p.K == gen.KFun {
			return refMatch(p.Ret, g.Ret, b)
		}
		return true
	}
	return true
}

type unifyObs struct {
	ok       bool
	panicked string
	res      *types.Type
	m        map[string]*types.Type
}

func tryUnify(x, y *types.Type) (o unifyObs) {
	o.m = map[string]*types.Type{}
	defer func() {
		if r := recover(); r != nil {
			o.panicked = fmt.Sprint(r)
		}
	}()
	o.res = types.Unify(x, y, o.m)
	o.ok = o.res != nil
	return
}

func tryEquals(x, y *types.Type) (eq bool, panicked string) {
	defer func() {
		if r := recover(); r != nil {
			panicked = fmt.Sprint(r)
		}
	}()
	return types.Equals(x, y), ""
}

func (c17) Run(c *engine.Case) *engine.Result {
	var d c17Data
	_ = json.Unmarshal(c.Data, &d)
	res := &engine.Result{}
	X, Y := d.X, d.Y
	res.NonTrivial = X.Depth() > 0 || Y.Depth() > 0 || X.K == gen.KVar || Y.K == gen.KVar
	bad := func(class, f string, a ...interface{}) {
		res.Violations = append(res.Violations, engine.V(class, f, a...))
	}
	vars := real.NewVars()
	build := func(t *gen.Ty) *types.Type { return real.ToType(t, vars) }
	dag := c.Family == "tuple-dag"
	if dag {
		mx, my := map[string]*types.Type{}, map[string]*types.Type{}
		bx := func(t *gen.Ty) *types.Type { return real.ToTypeShared(t, vars, mx) }
		by := func(t *gen.Ty) *types.Type { return real.ToTypeShared(t, vars, my) }
		return c17pair(res, X, Y, bx, by, vars, bad, true)
	}
	if d.Z != nil {
		x, y, z := build(X), build(Y), build(d.Z)
		exy, _ := tryEquals(x, y)
		eyz, _ := tryEquals(y, z)
		exz, _ := tryEquals(x, z)
		res.Execs += 3
		res.Outcome = fmt.Sprint(exy, eyz, exz)
		if exy && eyz && !exz {
			bad("equals-not-transitive", "%s = %s = %s but first ≠ third", X, Y, d.Z)
		}
		if exy != gen.Equal(X, Y) || eyz != gen.Equal(Y, d.Z) || exz != gen.Equal(X, d.Z) {
			bad("equals-not-structural", "triple %s / %s / %s: Equals gives %v %v %v", X, Y, d.Z, exy, eyz, exz)
		}
		return res
	}
	return c17pair(res, X, Y, build, build, vars, bad, false)
}

func c17pair(res *engine.Result, X, Y *gen.Ty, bx, by func(*gen.Ty) *types.Type, vars *real.Vars,
	bad func(string, string, ...interface{}), dag bool) *engine.Result {
	x, y := bx(X), by(Y)
	// ---- equality
	want := gen.Equal(X, Y)
	exy, p1 := tryEquals(x, y)
	eyx, p2 := tryEquals(y, x)
	exx, p3 := tryEquals(x, bx(X))
	res.Execs += 3
	if p1 != "" || p2 != "" || p3 != "" {
		bad("equals-panic", "Equals panicked on %s / %s: %s%s%s", X, Y, p1, p2, p3)
	}
	if exy != want {
		bad("equals-not-structural", "Equals(%s, %s) = %v, structural identity (fields by name) = %v", X, Y, exy, want)
	}
	// asking the same question about the same two type objects again must give the same answer
	for i := 0; i < 3; i++ {
		if again, _ := tryEquals(x, y); again != exy {
			bad("equals-not-repeatable", "Equals(%s, %s) = %v, repeated on the same objects = %v", X, Y, exy, again)
			break
		}
		res.Execs++
	}
	if exy != eyx {
		bad("equals-not-symmetric", "Equals(%s, %s) = %v but reversed = %v", X, Y, exy, eyx)
	}
	if !exx {
		bad("equals-not-reflexive", "Equals(%s, structurally identical copy) = false", X)
	}
	// ---- unification, both orders
	out := fmt.Sprintf("eq=%v", exy)
	for _, dir := range []struct {
		a, b   *gen.Ty
		ra, rb *types.Type
		tag    string
	}{{X, Y, x, y, "xy"}, {Y, X, by(Y), bx(X), "yx"}} {
		o := tryUnify(dir.ra, dir.rb)
		res.Execs++
		if o.panicked != "" {
			// The statement defines the outcome of unification only when it succeeds, or when one
			// side is variable-free (then it must succeed iff an instantiation exists). A panic on a
			// pair where both sides contain variables (e.g. 'a bound to a list and then used as a
			// map key) is recorded as an outcome, not judged.
			if dir.a.Ground() || dir.b.Ground() {
				cls := "unify-panic"
				if dag {
					cls = "unify-panic-on-shared-acyclic-input"
				}
				bad(cls, "Unify(%s, %s) panicked: %s", dir.a, dir.b, o.panicked)
			}
			out += " " + dir.tag + "=panic"
			continue
		}
		out += fmt.Sprintf(" %s=%v", dir.tag, o.ok)
		plain := !dir.a.Has(gen.KBot) && !dir.a.Has(gen.KTop) && !dir.b.Has(gen.KBot) && !dir.b.Has(gen.KTop)
		// completeness, only where the property states it: pattern vs variable-free type
		if plain && (dir.a.Ground() || dir.b.Ground()) {
			p, g := dir.a, dir.b
			if !g.Ground() {
				p, g = g, p
			}
			expect := refMatch(p, g, map[string]*gen.Ty{})
			if o.ok != expect {
				bad("unify-match-mismatch", "Unify(%s, %s) success=%v, an instantiation of the pattern exists=%v", dir.a, dir.b, o.ok, expect)
			}
		}
		if !o.ok {
			continue
		}
		// soundness of the substitution
		sub := map[string]*gen.Ty{}
		okRead := true
		for realName, rt := range o.m {
			my, known := vars.Back[realName]
			if !known {
				bad("subst-foreign-variable", "Unify(%s, %s) bound a variable %q that occurs in neither input", dir.a, dir.b, realName)
				okRead = false
				continue
			}
			t, err := real.FromType(rt, vars)
			if err != nil {
				bad("subst-malformed", "Unify(%s, %s): binding of '%s unreadable: %v", dir.a, dir.b, my, err)
				okRead = false
				continue
			}
			sub[my] = t
		}
		if !okRead {
			continue
		}
		sa, err1 := closure(dir.a, sub, map[string]bool{})
		sb, err2 := closure(dir.b, sub, map[string]bool{})
		if err1 != nil || err2 != nil {
			bad("subst-cyclic", "Unify(%s, %s) succeeded with σ=%s: %v %v", dir.a, dir.b, subStr(sub), err1, err2)
			continue
		}
		if !rel(sa, sb) {
			bad("unify-unsound", "Unify(%s, %s) succeeded with σ=%s but σ(x)=%s and σ(y)=%s differ", dir.a, dir.b, subStr(sub), sa, sb)
		}
		if rt, err := real.FromType(o.res, vars); err != nil {
			bad("unify-result-malformed", "Unify(%s, %s) result unreadable: %v", dir.a, dir.b, err)
		} else if sr, err := closure(rt, sub, map[string]bool{}); err != nil {
			bad("subst-cyclic", "Unify(%s, %s) result %s: %v", dir.a, dir.b, rt, err)
		} else if !rel(sr, sb) || !rel(sa, sr) {
			bad("unify-result-wrong", "Unify(%s, %s) returned %s (σ-closed: %s), inputs under σ are %s and %s", dir.a, dir.b, rt, sr, sa, sb)
		}
		out += "σ" + subStr(sub)
	}
	res.Outcome = out
	return res
}

func subStr(s map[string]*gen.Ty) string {
	out := "{"
	for _, k := range []string{"a", "b"} {
		if t, ok := s[k]; ok {
			out += "'" + k + "↦" + t.String() + " "
		}
	}
	return out + "}"
}
