package props

import (
	"fmt"

	"github.com/goghcrow/yae"

	"verif/mc/engine"
	"verif/mc/real"
	"verif/mc/seams"
)

// Inconsistent host data at run time: the compile-time sample is consistent, the run-time value
// has the same Go type but holds, somewhere inside, elements of different yae types. Such an
// environment has no type equal to the compile-time one: the invocation must be an error and
// nothing may be evaluated — under every map-iteration order.

type c07Bad struct {
	name         string
	sample, data interface{}
	progs        []string
}

func c07BadData() []c07Bad {
	I := func(xs ...interface{}) []interface{} { return xs }
	type holder struct {
		L [][]interface{}          `yae:"l"`
		M map[string][]interface{} `yae:"m"`
	}
	return []c07Bad{
		{"map-of-slices", map[string][]interface{}{"a": I(1)}, map[string][]interface{}{"a": I(1), "z": I("x")}, []string{`tr(1, 1) + len(x)`, `tr(1, 1) + x["a"][0]`}},
		{"map-of-slices-3", map[string][]interface{}{"a": I(1)}, map[string][]interface{}{"a": I(1), "b": I(2), "z": I(true)}, []string{`tr(1, 1) + len(x)`, `tr(1, 1) + x["a"][0]`}},
		{"slice-of-maps", []map[string]interface{}{{"k": 1}}, []map[string]interface{}{{"k": 1}, {"k": "s"}}, []string{`tr(1, 1) + len(x)`, `tr(1, 1) + x[0]["k"]`}},
		{"slice-of-slices", [][]interface{}{I(1)}, [][]interface{}{I(1), I("x")}, []string{`tr(1, 1) + len(x)`, `tr(1, 1) + x[0][0]`}},
		{"slice-of-slices-late", [][]interface{}{I(1)}, [][]interface{}{I(1), I(2), I(3), I("x")}, []string{`tr(1, 1) + len(x)`, `tr(1, 1) + x[0][0]`}},
		{"map-of-maps", map[string]map[string]interface{}{"a": {"k": 1}}, map[string]map[string]interface{}{"a": {"k": 1}, "b": {"k": "s"}}, []string{`tr(1, 1) + len(x)`, `tr(1, 1) + x["a"]["k"]`}},
		{"flat-slice", I(1), I(1, "x"), []string{`tr(1, 1) + len(x)`, `tr(1, 1) + x[0]`}},
		{"flat-map", map[string]interface{}{"a": 1}, map[string]interface{}{"a": 1, "b": "x"}, []string{`tr(1, 1) + len(x)`, `tr(1, 1) + x["a"]`}},
		{"map-int-keys", map[int][]interface{}{1: I(1)}, map[int][]interface{}{1: I(1), 2: I("x")}, []string{`tr(1, 1) + len(x)`}},
		{"struct-field-slices", holder{L: [][]interface{}{I(1)}, M: map[string][]interface{}{"a": I(1)}}, holder{L: [][]interface{}{I(1), I("x")}, M: map[string][]interface{}{"a": I(1)}}, []string{`tr(1, 1) + len(x.l)`, `tr(1, 1) + x.l[0][0]`}},
		{"struct-field-maps", holder{L: [][]interface{}{I(1)}, M: map[string][]interface{}{"a": I(1)}}, holder{L: [][]interface{}{I(1)}, M: map[string][]interface{}{"a": I(1), "z": I("x")}}, []string{`tr(1, 1) + len(x.m)`, `tr(1, 1) + x.m["a"][0]`}},
		{"nested-deeper", map[string][][]interface{}{"a": {I(1)}}, map[string][][]interface{}{"a": {I(1)}, "z": {I(1), I("x")}}, []string{`tr(1, 1) + len(x)`}},
		{"typed-vs-empty", map[string][]interface{}{"a": I(1)}, map[string][]interface{}{"a": I("s")}, []string{`tr(1, 1) + len(x)`, `tr(1, 1) + x["a"][0]`}},
	}
}

func c07BadCases(emit func(*engine.Case)) {
	for i, b := range c07BadData() {
		for j := range b.progs {
			emit(&engine.Case{Family: "inconsistent-host-data", Key: fmt.Sprintf("%s|%d", b.name, j), Src: b.progs[j], Args: []string{"bad", fmt.Sprint(i), fmt.Sprint(j)}})
		}
	}
}

func runC07Bad(c *engine.Case) *engine.Result {
	res := &engine.Result{NonTrivial: true}
	var i, j int
	fmt.Sscan(c.Args[1], &i)
	fmt.Sscan(c.Args[2], &j)
	b := c07BadData()[i]
	src := b.progs[j]
	outs := map[string]int{}
	defer seams.SetMapSeed(1)
	for _, be := range real.Backends {
		for seed := 1; seed <= 8; seed++ {
			seams.SetMapSeed(seed)
			h := real.StdHost()
			e := real.NewEngine(be, h)
			var cb yae.Callable
			var err error
			func() {
				defer func() {
					if r := recover(); r != nil {
						err = fmt.Errorf("panic: %v", r)
					}
				}()
				cb, err = e.Compile(src, map[string]interface{}{"x": b.sample})
			}()
			res.Execs++
			if err != nil {
				res.Violations = append(res.Violations, vf("harness-compile-failed", "%s against the consistent sample %s: %v", src, b.name, err))
				return res
			}
			// a good call first, then the inconsistent data, then a good call again
			for step, arg := range []interface{}{b.sample, b.data, b.sample} {
				o := &real.Obs{}
				o.Invoke(cb, map[string]interface{}{"x": arg}, h)
				res.Execs++
				res.States++
				label := fmt.Sprintf("%s compiled against a consistent %s sample, invocation %d on %s (map seed %d)", src, b.name, step+1, be, seed)
				if step == 1 {
					switch {
					case o.Panic != "":
						res.Violations = append(res.Violations, vf("env-check-panics", "%s with inconsistent data panicked: %s", label, stable(o.Panic)))
					case o.RunErr == "":
						res.Violations = append(res.Violations, vf("mismatch-accepted", "%s: host data whose elements have different types was accepted and evaluated to %v", label, o.Val))
					case len(o.Trace) > 0:
						res.Violations = append(res.Violations, vf("evaluates-before-rejecting", "%s: rejected (%s) but host calls %v were made", label, stable(o.RunErr), o.Trace))
					}
					outs["rejected"]++
				} else if o.Val == nil {
					res.Violations = append(res.Violations, vf("matching-env-rejected", "%s with the sample itself failed: %s%s", label, stable(o.RunErr), stable(o.Panic)))
				}
			}
		}
	}
	res.Outcome = fmt.Sprint(outs)
	return res
}
