package props

import (
	"encoding/json"
	"fmt"
	"math"
	"strings"
	"time"

	"github.com/goghcrow/yae"
	"github.com/goghcrow/yae/conv"
	"github.com/goghcrow/yae/types"
	"github.com/goghcrow/yae/val"

	"verif/mc/engine"
	"verif/mc/gen"
	"verif/mc/real"
	"verif/mc/ref"
	"verif/mc/seams"
)

// C18 — equality, map-key identity, set membership and rendering agree.
type c18 struct{}

func init() { engine.Register(c18{}) }

func (c18) ID() string { return "C18" }

func (c18) Meta(tier string) engine.Meta {
	return engine.Meta{
		Level: "model_checking",
		Rule: "all ordered pairs of values of one type, for 23 types: numbers {0,-0,±1,1+2e-9,0.1,2^53,2^53+2,±2^63,±(2^63+2048),2^63-1024,1e300,1e301,-1e300, and the adjacent doubles above 1e21, 2^70 and 1e100}, strings needing escapes, booleans, instants (incl. the same instant in another zone and with sub-second parts), lists of <= 2 numbers, lists of objects, string- and number-keyed maps built in every insertion order, 3-field objects in all 6 field orders, nested objects, optionals; each pair as raw values, (where Go data can express it) as converted host data, and (where the language has a literal) as LITERALS of one program on two back ends; plus programs in which one value is reached through two paths ([xs, xs], {a: xs, b: xs}, …) against the equal value built from separate copies; every pair under map-iteration seeds 1..8 (all orders the runtime can produce for <= 8 entries). Oracle (premise: numeric parts identical or further apart than the tolerance, guaranteed by the value sets): x == y (language operator on singleton lists), equal String(), equal Key() / isset / get on a map keyed by x, and union / intersect / diff element identity must all coincide with the reference's structural equality; reflexive on independently built copies, symmetric; String() identical for every seed. non-trivial = every pair",
		Bound: "values of depth <= 2; containers of width <= 2 (objects 3); 8 seeds",
		Assumptions: []string{"probe programs are compiled once per element type on the default back end and invoked per pair"},
	}
}

func c18Values() map[string][]*ref.V {
	N := gen.Num
	ns := []float64{0, -0.0 * 1, 1, 1 + 2e-9, 0.1, gen.Pow53, gen.Pow53 + 2, gen.Pow63, gen.Pow63 + 2048, 1e300, 1e301, -1e300, -gen.Pow63, -gen.Pow63 - 2048, -1, gen.Pow63 - 1024}
	ns[1] = negZero()
	// adjacent doubles far above 2^63 (they differ in the 17th significant digit only)
	ns = append(ns, 1e21, math.Nextafter(1e21, math.Inf(1)), math.Ldexp(1, 70), math.Nextafter(math.Ldexp(1, 70), math.Inf(1)), 1e100, math.Nextafter(1e100, math.Inf(1)))
	out := map[string][]*ref.V{}
	out["num"] = nums(ns...)
	out["str"] = strs("", "a", `a"b`, `a\b`, "\n", "é", "a b", "A")
	out["bool"] = []*ref.V{ref.BoolV(true), ref.BoolV(false)}
	tokyo := time.FixedZone("JST", 9*3600)
	out["time"] = []*ref.V{ref.TimeV(t0), ref.TimeV(time.Unix(t0.Unix(), 0)), ref.TimeV(t0.Add(time.Second)), ref.TimeV(t0.In(tokyo)), ref.TimeV(t0.Add(500 * time.Millisecond)), ref.TimeV(t0.UTC())}
	small := []float64{1, 2, 1 + 2e-9, gen.Pow63}
	var ln []*ref.V
	ln = append(ln, ref.ListV(N))
	for _, a := range small {
		ln = append(ln, ref.ListV(N, ref.NumV(a)))
		for _, b := range small {
			ln = append(ln, ref.ListV(N, ref.NumV(a), ref.NumV(b)))
		}
	}
	out["list[num]"] = ln
	// maps in every insertion order
	var msn []*ref.V
	msn = append(msn, ref.MapV(gen.Str, N))
	for _, va := range []float64{1, 2} {
		msn = append(msn, ref.MapV(gen.Str, N, ref.StrV("a"), ref.NumV(va)), ref.MapV(gen.Str, N, ref.StrV("b"), ref.NumV(va)))
		for _, vb := range []float64{1, 2} {
			msn = append(msn, ref.MapV(gen.Str, N, ref.StrV("a"), ref.NumV(va), ref.StrV("b"), ref.NumV(vb)),
				ref.MapV(gen.Str, N, ref.StrV("b"), ref.NumV(vb), ref.StrV("a"), ref.NumV(va)))
		}
	}
	msn = append(msn, ref.MapV(gen.Str, N, ref.StrV("a"), ref.NumV(1), ref.StrV("b"), ref.NumV(2), ref.StrV("c"), ref.NumV(3)),
		ref.MapV(gen.Str, N, ref.StrV("c"), ref.NumV(3), ref.StrV("a"), ref.NumV(1), ref.StrV("b"), ref.NumV(2)),
		ref.MapV(gen.Str, N, ref.StrV("b"), ref.NumV(2), ref.StrV("c"), ref.NumV(3), ref.StrV("a"), ref.NumV(1)))
	// keys that differ only in case, or are equal after normalisation of neither kind
	msn = append(msn, ref.MapV(gen.Str, N, ref.StrV("a"), ref.NumV(1), ref.StrV("A"), ref.NumV(2)), ref.MapV(gen.Str, N, ref.StrV("A"), ref.NumV(2), ref.StrV("a"), ref.NumV(1)),
		ref.MapV(gen.Str, N, ref.StrV("A"), ref.NumV(1), ref.StrV("a"), ref.NumV(2)), ref.MapV(gen.Str, N, ref.StrV("a"), ref.NumV(1), ref.StrV("A"), ref.NumV(2), ref.StrV("B"), ref.NumV(3), ref.StrV("b"), ref.NumV(4)))
	out["map[str,num]"] = msn
	var mns []*ref.V
	keys := []float64{1, 1 + 2e-9, 0.5, gen.Pow63, gen.Pow63 + 2048, 1e300, 1e301, -gen.Pow63, -1, 0, negZero(), math.Ldexp(1, 70), math.Nextafter(math.Ldexp(1, 70), math.Inf(1))}
	for _, k := range keys {
		mns = append(mns, ref.MapV(N, gen.Str, ref.NumV(k), ref.StrV("x")))
	}
	mns = append(mns, ref.MapV(N, gen.Str, ref.NumV(math.Ldexp(1, 70)), ref.StrV("x"), ref.NumV(math.Nextafter(math.Ldexp(1, 70), math.Inf(1))), ref.StrV("y")),
		ref.MapV(N, gen.Str, ref.NumV(1), ref.StrV("x"), ref.NumV(0.5), ref.StrV("y")), ref.MapV(N, gen.Str, ref.NumV(0.5), ref.StrV("y"), ref.NumV(1), ref.StrV("x")),
		ref.MapV(N, gen.Str, ref.NumV(1e300), ref.StrV("x"), ref.NumV(1e301), ref.StrV("y")), ref.MapV(N, gen.Str, ref.NumV(gen.Pow63), ref.StrV("x"), ref.NumV(gen.Pow63+2048), ref.StrV("y")))
	out["map[num,str]"] = mns
	// 3-field objects in all field orders
	var o3 []*ref.V
	names := []string{"a", "b", "c"}
	for _, av := range []float64{1, 2} {
		for _, cv := range []bool{true, false} {
			vals := []*ref.V{ref.NumV(av), ref.StrV("x"), ref.BoolV(cv)}
			for _, p := range perms3() {
				o3 = append(o3, ref.ObjV([]string{names[p[0]], names[p[1]], names[p[2]]}, vals[p[0]], vals[p[1]], vals[p[2]]))
			}
		}
	}
	out["obj3"] = o3
	var lo []*ref.V
	lo = append(lo, ref.ListV(tyOAB))
	for _, x := range []*ref.V{oab(1, "x"), oba(1, "x"), oab(2, "x"), oba(1, "y")} {
		lo = append(lo, ref.ListV(tyOAB, x))
		for _, y := range []*ref.V{oab(1, "x"), oba(1, "x")} {
			lo = append(lo, ref.ListV(tyOAB, x, y))
		}
	}
	out["list[obj]"] = lo
	// nested objects: {p: {a,b}, q: list[num]} in both orders with inner orders
	var on []*ref.V
	for _, in := range []*ref.V{oab(1, "x"), oba(1, "x"), oab(2, "x")} {
		for _, l := range []*ref.V{ref.ListV(N, nums(1, 2)...), ref.ListV(N, nums(2, 1)...)} {
			on = append(on, ref.ObjV([]string{"p", "q"}, in, l), ref.ObjV([]string{"q", "p"}, l, in))
		}
	}
	out["objnested"] = on
	// more shapes: lists of strings, lists of lists, boolean- and time-keyed maps, objects holding
	// containers, optional containers
	out["list[str]"] = []*ref.V{ref.ListV(gen.Str), ref.ListV(gen.Str, strs("a")...), ref.ListV(gen.Str, strs("a", "b")...), ref.ListV(gen.Str, strs("b", "a")...), ref.ListV(gen.Str, strs("a\"b")...), ref.ListV(gen.Str, strs("a", "a")...), ref.ListV(gen.Str, strs("")...)}
	ll := func(xs ...*ref.V) *ref.V { return ref.ListV(gen.List(N), xs...) }
	l12, l21, le := ref.ListV(N, nums(1, 2)...), ref.ListV(N, nums(2, 1)...), ref.ListV(N)
	out["list[list[num]]"] = []*ref.V{ll(), ll(le), ll(l12), ll(l21), ll(l12, l21), ll(l21, l12), ll(l12, l12), ll(le, le), ll(ref.ListV(N, nums(1)...), ref.ListV(N, nums(2)...))}
	out["map[bool,num]"] = []*ref.V{ref.MapV(gen.Bool, N, ref.BoolV(true), ref.NumV(1)), ref.MapV(gen.Bool, N, ref.BoolV(false), ref.NumV(1)),
		ref.MapV(gen.Bool, N, ref.BoolV(true), ref.NumV(1), ref.BoolV(false), ref.NumV(2)), ref.MapV(gen.Bool, N, ref.BoolV(false), ref.NumV(2), ref.BoolV(true), ref.NumV(1)), ref.MapV(gen.Bool, N, ref.BoolV(true), ref.NumV(2))}
	out["map[time,str]"] = []*ref.V{ref.MapV(gen.Time, gen.Str, ref.TimeV(t0), ref.StrV("x")), ref.MapV(gen.Time, gen.Str, ref.TimeV(t0), ref.StrV("x"), ref.TimeV(t0.Add(500*time.Millisecond)), ref.StrV("y")),
		ref.MapV(gen.Time, gen.Str, ref.TimeV(t0.Add(500*time.Millisecond)), ref.StrV("x")), ref.MapV(gen.Time, gen.Str, ref.TimeV(t0.In(tokyo)), ref.StrV("x")),
		ref.MapV(gen.Time, gen.Str, ref.TimeV(t0.Add(time.Second)), ref.StrV("x")), ref.MapV(gen.Time, gen.Str, ref.TimeV(t0), ref.StrV("x"), ref.TimeV(t0.Add(time.Second)), ref.StrV("y")),
		ref.MapV(gen.Time, gen.Str, ref.TimeV(t0.Add(time.Second)), ref.StrV("y"), ref.TimeV(t0.UTC()), ref.StrV("x"))}
	var oc []*ref.V
	for _, l := range []*ref.V{l12, l21, le} {
		for _, m := range []*ref.V{ref.MapV(gen.Str, N, ref.StrV("a"), ref.NumV(1), ref.StrV("b"), ref.NumV(2)), ref.MapV(gen.Str, N, ref.StrV("b"), ref.NumV(2), ref.StrV("a"), ref.NumV(1)), ref.MapV(gen.Str, N)} {
			oc = append(oc, ref.ObjV([]string{"l", "m"}, l, m), ref.ObjV([]string{"m", "l"}, m, l))
		}
	}
	out["objcontainers"] = oc
	out["maybe[list[num]]"] = []*ref.V{ref.NothingV(gen.List(N)), ref.JustV(l12), ref.JustV(l21), ref.JustV(le), ref.JustV(ref.ListV(N, nums(1, 2)...))}
	// the declared container types are written in the field order of their elements
	mo := func(o *ref.V) *ref.V { return ref.MapV(gen.Str, o.T, ref.StrV("k"), o) }
	out["maybe[map[str,obj]]"] = []*ref.V{ref.NothingV(gen.Map(gen.Str, tyOAB)), ref.JustV(mo(oab(1, "x"))), ref.JustV(mo(oba(1, "x"))), ref.JustV(mo(oab(2, "x")))}
	out["maybe[list[obj]]"] = []*ref.V{ref.NothingV(tyLObj), ref.JustV(ref.ListV(tyOAB, oab(1, "x"))), ref.JustV(ref.ListV(tyOBA, oba(1, "x"))), ref.JustV(ref.ListV(tyOBA, oba(2, "x"))), ref.JustV(ref.ListV(tyOBA, oba(1, "x"), oab(2, "y")))}
	onest := func(in *ref.V, first bool) *ref.V {
		if first {
			return ref.ObjV([]string{"p", "q"}, in, ref.NumV(1))
		}
		return ref.ObjV([]string{"q", "p"}, ref.NumV(1), in)
	}
	out["maybe[obj{obj}]"] = []*ref.V{ref.JustV(onest(oab(1, "x"), true)), ref.JustV(onest(oba(1, "x"), true)), ref.JustV(onest(oba(1, "x"), false)), ref.JustV(onest(oab(2, "x"), false)), ref.NothingV(onest(oab(1, "x"), true).T)}
	out["maybe[maybe[obj]]"] = []*ref.V{ref.JustV(ref.JustV(oab(1, "x"))), ref.JustV(ref.JustV(oba(1, "x"))), ref.JustV(ref.NothingV(tyOAB)), ref.JustV(ref.NothingV(tyOBA)), ref.NothingV(gen.Maybe(tyOAB))}
	out["list[maybe[obj]]"] = []*ref.V{ref.ListV(tyMbObj, ref.JustV(oab(1, "x"))), ref.ListV(gen.Maybe(tyOBA), ref.JustV(oba(1, "x"))), ref.ListV(tyMbObj, ref.NothingV(tyOAB)), ref.ListV(gen.Maybe(tyOBA), ref.NothingV(tyOBA)), ref.ListV(tyMbObj, ref.JustV(oab(1, "x")), ref.NothingV(tyOBA))}
	out["maybe[num]"] = []*ref.V{ref.NothingV(N), ref.JustV(ref.NumV(1)), ref.JustV(ref.NumV(2)), ref.JustV(ref.NumV(1 + 2e-9))}
	out["maybe[obj]"] = []*ref.V{ref.NothingV(tyOAB), ref.JustV(oab(1, "x")), ref.JustV(oba(1, "x")), ref.JustV(oab(2, "x"))}
	return out
}

func negZero() float64 { z := 0.0; return -z }

var c18TypeOrder = []string{"num", "str", "bool", "time", "list[num]", "map[str,num]", "map[num,str]", "obj3", "list[obj]", "objnested", "maybe[num]", "maybe[obj]", "list[str]", "list[list[num]]", "map[bool,num]", "map[time,str]", "objcontainers", "maybe[list[num]]", "maybe[map[str,obj]]", "maybe[list[obj]]", "maybe[obj{obj}]", "maybe[maybe[obj]]", "list[maybe[obj]]"}

type c18Data struct {
	X, Y *ref.V
	Rep  string
}

// shared-structure programs: one value reached through two paths must render like the equal value
// built from separate copies
var c18SharedProgs = [][2]string{
	{"[xs, xs]", "[[1, 2], [1, 2]]"},
	{"{a: xs, b: xs}", "{a: [1, 2], b: [1, 2]}"},
	{"[o, o]", "[{a: 1, b: \"x\"}, {a: 1, b: \"x\"}]"},
	{"[\"k\": xs, \"j\": xs]", "[\"k\": [1, 2], \"j\": [1, 2]]"},
	{"[[xs, xs], [xs, xs]]", "[[[1, 2], [1, 2]], [[1, 2], [1, 2]]]"},
	{"{p: o, q: [o, o]}", "{p: {a: 1, b: \"x\"}, q: [{a: 1, b: \"x\"}, {a: 1, b: \"x\"}]}"},
	{"[m, m]", "[[\"a\": 1], [\"a\": 1]]"},
	{"union([xs], [xs])", "[[1, 2]]"},
	{"[if(true, xs, xs), xs]", "[[1, 2], [1, 2]]"},
}

func (c18) Generate(tier string, yield func(*engine.Case) bool) {
	for i, p := range c18SharedProgs {
		for _, wrap := range []string{"%s", "string(%s)"} {
			if !yield(&engine.Case{Family: "shared-structure", Key: fmt.Sprintf("%d|%s", i, fmt.Sprintf(wrap, p[0])), Src: fmt.Sprintf(wrap, p[0]), Args: []string{"shared", fmt.Sprintf(wrap, p[1])}}) {
				return
			}
		}
	}
	vals := c18Values()
	for _, tn := range c18TypeOrder {
		vs := vals[tn]
		for _, rep := range []string{"raw", "host", "lit"} {
			if rep == "host" && !real.HostRepresentable(vs[0].T, true, "map") {
				continue
			}
			for i, x := range vs {
				for j, y := range vs {
					if rep == "lit" && (litTerm(x) == nil || litTerm(y) == nil) {
						continue
					}
					b, err := json.Marshal(c18Data{x, y, rep})
					if err != nil {
						panic(err)
					}
					if !yield(&engine.Case{Family: "pairs-" + tn + "-" + rep, Key: fmt.Sprintf("%d:%s ~ %d:%s", i, x.Describe(), j, y.Describe()), Data: b}) {
						return
					}
				}
			}
		}
	}
}

type c18Probes struct {
	eq, un, in, di, isset, get, str yae.Callable
}

var c18Cache = map[string]*c18Probes{}

func c18Compile(el *gen.Ty) (*c18Probes, error) {
	k := el.Canon()
	if p, ok := c18Cache[k]; ok {
		return p, nil
	}
	e := yae.NewExpr()
	lt := types.List(real.ToType(el, nil))
	env := func(src string) *types.Env {
		te := types.NewEnv()
		if strings.Contains(src, "xs") {
			te.Put("xs", lt)
			te.Put("ys", lt)
		} else {
			te.Put("m", types.Map(real.ToType(el, nil), types.Num))
			te.Put("y", real.ToType(el, nil))
		}
		return te
	}
	p := &c18Probes{}
	var err error
	comp := func(src string) yae.Callable {
		c, e2 := e.Compile(src, env(src))
		if e2 != nil && err == nil {
			err = fmt.Errorf("%s: %v", src, e2)
		}
		return c
	}
	p.eq = comp("xs == ys")
	p.un = comp("len(union(xs, ys))")
	p.in = comp("len(intersect(xs, ys))")
	p.di = comp("len(diff(xs, ys))")
	p.str = comp("string(xs)")
	if el.IsPrim() {
		p.isset = comp("isset(m, y)")
		p.get = comp("get(m, y, 0)")
	}
	if err != nil {
		return nil, err
	}
	c18Cache[k] = p
	return p, nil
}

func hasObj(t *gen.Ty) bool {
	if t == nil {
		return false
	}
	if t.K == gen.KObj {
		return true
	}
	for _, f := range t.Fields {
		if hasObj(f.T) {
			return true
		}
	}
	return hasObj(t.El) || hasObj(t.Key) || hasObj(t.Val)
}

func toRealVal(v *ref.V, rep string) (*val.Val, error) {
	if rep == "raw" {
		return real.ToVal(v), nil
	}
	return conv.ValOf(real.ToGo(v).Interface())
}

func (c18) runShared(c *engine.Case) *engine.Result {
	res := &engine.Result{NonTrivial: true}
	env := real.EnvSpec{Rep: "raw", Binds: []real.Binding{
		{Name: "xs", V: ref.ListV(gen.Num, nums(1, 2)...)},
		{Name: "o", V: oab(1, "x")},
		{Name: "m", V: ref.MapV(gen.Str, gen.Num, ref.StrV("a"), ref.NumV(1))},
	}}
	var outs []string
	for _, b := range real.Backends {
		shared := real.Run(b, nil, c.Src, env)
		copies := real.Run(b, nil, c.Args[1], env)
		res.Execs += 2
		if shared.Val == nil || copies.Val == nil {
			res.Violations = append(res.Violations, vf("probe-failed", "%s / %s on %s: %s%s %s%s", c.Src, c.Args[1], b, shared.CompileErr, shared.RunErr, copies.CompileErr, copies.RunErr))
			continue
		}
		s1, s2 := shared.Val.String(), copies.Val.String()
		outs = append(outs, s1)
		if s1 != s2 {
			res.Violations = append(res.Violations, vf("render-shared-structure", "%s renders %q on %s, the equal value %s (separate copies) renders %q", c.Src, s1, b, c.Args[1], s2))
		}
	}
	res.Outcome = strings.Join(outs, ";")
	return res
}

func (c18) Run(c *engine.Case) *engine.Result {
	if len(c.Args) > 0 && c.Args[0] == "shared" {
		return c18{}.runShared(c)
	}
	var d c18Data
	if err := json.Unmarshal(c.Data, &d); err != nil {
		panic(err)
	}
	res := &engine.Result{NonTrivial: true}
	bad := func(class, f string, a ...interface{}) {
		if len(res.Violations) < 4 {
			res.Violations = append(res.Violations, vf(class, f, a...))
		}
	}
	same := ref.LangEqual(d.X, d.Y)
	if d.Rep == "lit" {
		return c18Literals(res, d, same, bad)
	}
	probes, err := c18Compile(d.X.T)
	if err != nil {
		bad("probe-compile-failed", "%v", err)
		return res
	}
	desc := fmt.Sprintf("%s vs %s [%s, %s]", d.X.Describe(), d.Y.Describe(), d.X.T, d.Rep)
	var renders, renders2 []string
	var out []string
	for seed := 1; seed <= 8; seed++ {
		engine.Heartbeat()
		seams.SetMapSeed(seed)
		x, err1 := toRealVal(d.X, d.Rep)
		y, err2 := toRealVal(d.Y, d.Rep)
		x2, _ := toRealVal(d.X, d.Rep) // an independently built copy
		if err1 != nil || err2 != nil {
			seams.SetMapSeed(1)
			bad("harness-conversion-failed", "%s: %v %v", desc, err1, err2)
			return res
		}
		lt := types.List(x.Type).List()
		mk := func(vs ...*val.Val) *val.Val {
			l := val.List(lt, len(vs)).List()
			copy(l.V, vs)
			return l.Vl()
		}
		call := func(cb yae.Callable, binds map[string]*val.Val) (*val.Val, string) {
			env := val.NewEnv()
			for k, v := range binds {
				env.Put(k, v)
			}
			res.Execs++
			v, err := cb(env)
			if err != nil {
				return nil, err.Error()
			}
			return v, ""
		}
		boolOf := func(v *val.Val, e string) (bool, string) {
			if e != "" {
				return false, e
			}
			return v.Bool().V, ""
		}
		numOf := func(v *val.Val, e string) (float64, string) {
			if e != "" {
				return -1, e
			}
			return v.Num().V, ""
		}
		lists := map[string]*val.Val{"xs": mk(x), "ys": mk(y)}
		eq, e1 := boolOf(call(probes.eq, lists))
		qe, e1b := boolOf(call(probes.eq, map[string]*val.Val{"xs": mk(y), "ys": mk(x)}))
		refl, e1c := boolOf(call(probes.eq, map[string]*val.Val{"xs": mk(x), "ys": mk(x2)}))
		un, e2 := numOf(call(probes.un, lists))
		in, e3 := numOf(call(probes.in, lists))
		di, e4 := numOf(call(probes.di, lists))
		if e := e1 + e1b + e1c + e2 + e3 + e4; e != "" {
			bad("probe-failed", "%s seed %d: %s", desc, seed, stable(e))
			continue
		}
		sx, sy := x.String(), y.String()
		renders = append(renders, sx)
		if seed == 1 {
			out = append(out, fmt.Sprintf("same=%v eq=%v un=%v in=%v di=%v render=%v", same, eq, un, in, di, sx == sy))
		}
		if eq != same {
			bad("equality-wrong", "%s seed %d: == gives %v, structural equality is %v", desc, seed, eq, same)
		}
		if eq != qe {
			bad("equality-not-symmetric", "%s seed %d: x == y is %v but y == x is %v", desc, seed, eq, qe)
		}
		if !refl {
			bad("equality-not-reflexive", "%s seed %d: a value is not == to an independently built copy", desc, seed)
		}
		if (sx == sy) != same {
			bad("render-disagrees-with-equality", "%s seed %d: renderings %q / %q, equal=%v", desc, seed, sx, sy, same)
		}
		// the language-level conversion string(v) must be canonical in the same way
		if el := x.Type; el != nil {
			tx, e7 := call(probes.str, map[string]*val.Val{"xs": mk(x), "ys": mk(x)})
			ty, e8 := call(probes.str, map[string]*val.Val{"xs": mk(y), "ys": mk(y)})
			t2, e9 := call(probes.str, map[string]*val.Val{"xs": mk(x2), "ys": mk(x2)})
			if e7+e8+e9 != "" {
				bad("probe-failed", "%s seed %d: string(): %s", desc, seed, stable(e7+e8+e9))
			} else {
				a, b, c2 := tx.Str().V, ty.Str().V, t2.Str().V
				renders2 = append(renders2, a)
				// (string() writes object fields in their stored order — the canonical rendering the
				// property is anchored at is (*Val).String — so only object-free types are compared)
				if same && !hasObj(d.X.T) && a != b {
					bad("render-disagrees-with-equality", "%s seed %d: string() gives %q / %q for equal values", desc, seed, a, b)
				}
				if a != c2 {
					bad("render-not-canonical", "%s seed %d: string() of two copies of one value gives %q and %q", desc, seed, a, c2)
				}
			}
		}
		if s2 := x2.String(); s2 != sx {
			bad("render-not-canonical", "%s seed %d: two copies of one value render %q and %q", desc, seed, sx, s2)
		}
		wantUn, wantIn, wantDi := 2.0, 0.0, 1.0
		if same {
			wantUn, wantIn, wantDi = 1, 1, 0
		}
		if un != wantUn || in != wantIn || di != wantDi {
			bad("set-membership-disagrees-with-equality", "%s seed %d: |union|=%v |intersect|=%v |diff|=%v for singleton lists, equal=%v", desc, seed, un, in, di, same)
		}
		if d.X.T.IsPrim() {
			kx, ky := x.Key(), y.Key()
			if (kx == ky) != same {
				bad("key-disagrees-with-equality", "%s seed %d: keys %v / %v, equal=%v", desc, seed, kx, ky, same)
			}
			m := val.Map(types.Map(x.Type, types.Num).Map()).Map()
			m.Put(x, val.Num(7))
			is, e5 := boolOf(call(probes.isset, map[string]*val.Val{"m": m.Vl(), "y": y}))
			g, e6 := numOf(call(probes.get, map[string]*val.Val{"m": m.Vl(), "y": y}))
			if e5+e6 != "" {
				bad("probe-failed", "%s seed %d: %s", desc, seed, stable(e5+e6))
			} else if is != same || (g == 7) != same {
				bad("map-entry-disagrees-with-equality", "%s seed %d: isset(m[x], y)=%v get=%v, equal=%v", desc, seed, is, g, same)
			}
		}
	}
	seams.SetMapSeed(1)
	for _, r := range renders {
		if r != renders[0] {
			bad("render-depends-on-map-seed", "%s: renders %q under one iteration order and %q under another", desc, renders[0], r)
			break
		}
	}
	for _, r := range renders2 {
		if r != renders2[0] {
			bad("render-depends-on-map-seed", "%s: string() gives %q under one iteration order and %q under another", desc, renders2[0], r)
			break
		}
	}
	res.Outcome = strings.Join(out, ";")
	return res
}

// c18Literals: the same agreement for values written as LITERALS of one program, on two back ends.
func c18Literals(res *engine.Result, d c18Data, same bool, bad func(string, string, ...interface{})) *engine.Result {
	X, Y := litTerm(d.X).Render(), litTerm(d.Y).Render()
	desc := fmt.Sprintf("literals %s vs %s", X, Y)
	n := func(b bool, yes, no float64) *ref.V {
		if b {
			return ref.NumV(yes)
		}
		return ref.NumV(no)
	}
	progs := []struct {
		src  string
		want *ref.V
		cls  string
	}{
		{fmt.Sprintf("[%s] == [%s]", X, Y), ref.BoolV(same), "equality-wrong"},
		{fmt.Sprintf("[%s] == [%s]", Y, X), ref.BoolV(same), "equality-not-symmetric"},
		{fmt.Sprintf("len(union([%s], [%s]))", X, Y), n(same, 1, 2), "set-membership-disagrees-with-equality"},
		{fmt.Sprintf("len(intersect([%s], [%s]))", X, Y), n(same, 1, 0), "set-membership-disagrees-with-equality"},
		{fmt.Sprintf("len(diff([%s], [%s]))", X, Y), n(same, 0, 1), "set-membership-disagrees-with-equality"},
	}
	if d.X.T.IsPrim() {
		progs = append(progs, struct {
			src  string
			want *ref.V
			cls  string
		}{fmt.Sprintf("isset([%s: 7], %s)", X, Y), ref.BoolV(same), "map-entry-disagrees-with-equality"},
			struct {
				src  string
				want *ref.V
				cls  string
			}{fmt.Sprintf("get([%s: 7], %s, 0)", X, Y), n(same, 7, 0), "map-entry-disagrees-with-equality"},
			struct {
				src  string
				want *ref.V
				cls  string
			}{fmt.Sprintf("len([%s: 1, %s: 2])", X, Y), n(same, 1, 2), "key-disagrees-with-equality"})
	}
	if same && !hasObj(d.X.T) {
		progs = append(progs, struct {
			src  string
			want *ref.V
			cls  string
		}{fmt.Sprintf("string([%s]) == string([%s])", X, Y), ref.BoolV(true), "render-disagrees-with-equality"})
	}
	var outs []string
	for _, pg := range progs {
		for _, b := range []real.Backend{real.VMSwitch, real.Closure} {
			o := real.Run(b, nil, pg.src, real.EnvSpec{Rep: "raw"})
			res.Execs++
			if o.Val == nil {
				bad("probe-failed", "%s: %s on %s: %s%s%s", desc, pg.src, b, o.CompileErr, stable(o.RunErr), stable(o.Panic))
				continue
			}
			got, err := real.FromVal(o.Val)
			if err != nil || !ref.Same(got, pg.want) {
				bad(pg.cls, "%s: %s on %s gives %v, equal=%v demands %s", desc, pg.src, b, got, same, pg.want.Describe())
			}
			if b == real.VMSwitch {
				outs = append(outs, fmt.Sprint(got))
			}
		}
	}
	// rendering of the two literals
	for _, b := range []real.Backend{real.VMSwitch, real.Closure} {
		ox := real.Run(b, nil, "["+X+"]", real.EnvSpec{Rep: "raw"})
		oy := real.Run(b, nil, "["+Y+"]", real.EnvSpec{Rep: "raw"})
		res.Execs += 2
		if ox.Val != nil && oy.Val != nil && (ox.Val.String() == oy.Val.String()) != same {
			bad("render-disagrees-with-equality", "%s on %s: renderings %q / %q, equal=%v", desc, b, ox.Val.String(), oy.Val.String(), same)
		}
	}
	res.Outcome = fmt.Sprintf("lit same=%v %s", same, strings.Join(outs, ","))
	return res
}
