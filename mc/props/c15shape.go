package props

import (
	"fmt"
	"reflect"
	"strings"
	"time"

	"verif/mc/gen"
	"verif/mc/ref"
)

// Go-shape grammar for host data: a description of a Go type plus a description of a value of it.
// The reference conversion works on these descriptions (no reflection); the real conversion gets
// the reflect-built Go value.

type shape struct {
	K      string // int int8 uint16 float32 float64 string bool time ptr slice array map struct iface chan func complex uintptr
	Elem   *shape
	Key    *shape
	Fields []shapeField
}

type shapeField struct {
	Tag   string // yae name ("" = Go name)
	Maybe bool
	S     *shape
	Pad   bool // write the tag with blanks and mixed case around its parts: ` name , Maybe `
}

func (s *shape) String() string {
	switch s.K {
	case "ptr":
		return "*" + s.Elem.String()
	case "slice":
		return "[]" + s.Elem.String()
	case "array":
		return "[2]" + s.Elem.String()
	case "map":
		return "map[" + s.Key.String() + "]" + s.Elem.String()
	case "struct":
		xs := make([]string, len(s.Fields))
		for i, f := range s.Fields {
			t := f.Tag
			if f.Maybe {
				t += ",maybe"
			}
			if f.Pad {
				t = "padded:" + t
			}
			xs[i] = fmt.Sprintf("F%d %s `%s`", i, f.S, t)
		}
		return "struct{" + strings.Join(xs, "; ") + "}"
	}
	return s.K
}

var ifaceType = reflect.TypeOf((*interface{})(nil)).Elem()

func (s *shape) goType() reflect.Type {
	switch s.K {
	case "int":
		return reflect.TypeOf(int(0))
	case "int8":
		return reflect.TypeOf(int8(0))
	case "uint16":
		return reflect.TypeOf(uint16(0))
	case "float32":
		return reflect.TypeOf(float32(0))
	case "float64":
		return reflect.TypeOf(float64(0))
	case "string":
		return reflect.TypeOf("")
	case "bool":
		return reflect.TypeOf(false)
	case "time":
		return reflect.TypeOf(time.Time{})
	case "iface":
		return ifaceType
	case "chan":
		return reflect.TypeOf(make(chan int))
	case "func":
		return reflect.TypeOf(func() {})
	case "complex":
		return reflect.TypeOf(complex(0, 0))
	case "uintptr":
		return reflect.TypeOf(uintptr(0))
	case "ptr":
		return reflect.PointerTo(s.Elem.goType())
	case "slice":
		return reflect.SliceOf(s.Elem.goType())
	case "array":
		return reflect.ArrayOf(2, s.Elem.goType())
	case "map":
		return reflect.MapOf(s.Key.goType(), s.Elem.goType())
	case "struct":
		fs := make([]reflect.StructField, len(s.Fields))
		for i, f := range s.Fields {
			tag := ""
			if f.Tag != "" || f.Maybe {
				tag = `yae:"` + f.Tag
				if f.Maybe {
					tag += ",maybe"
				}
				tag += `"`
			}
			if f.Pad {
				tag = `yae:" ` + f.Tag + ` `
				if f.Maybe {
					tag += `, Maybe `
				}
				tag += `"`
			}
			fs[i] = reflect.StructField{Name: fmt.Sprintf("F%d", i), Type: f.S.goType(), Tag: reflect.StructTag(tag)}
		}
		return reflect.StructOf(fs)
	}
	panic("goType " + s.K)
}

// gv is a value description.
type gv struct {
	Nil   bool
	I     int    // leaf: index into the leaf domain
	Elems []*gv  // slice / array elements, struct fields, map values (keys by index), ptr target [0]
	Dyn   *shape // iface: dynamic shape of the held value (Elems[0] is the value)
}

func (v *gv) str(s *shape) string {
	if v.Nil {
		return "nil"
	}
	switch s.K {
	case "ptr":
		return "&" + v.Elems[0].str(s.Elem)
	case "iface":
		return "any(" + v.Dyn.String() + ":" + v.Elems[0].str(v.Dyn) + ")"
	case "slice", "array":
		xs := make([]string, len(v.Elems))
		for i, e := range v.Elems {
			xs[i] = e.str(s.Elem)
		}
		return "[" + strings.Join(xs, ",") + "]"
	case "map":
		xs := make([]string, len(v.Elems))
		for i, e := range v.Elems {
			xs[i] = fmt.Sprintf("k%d:%s", i, e.str(s.Elem))
		}
		return "{" + strings.Join(xs, ",") + "}"
	case "struct":
		xs := make([]string, len(v.Elems))
		for i, e := range v.Elems {
			xs[i] = e.str(s.Fields[i].S)
		}
		return "{" + strings.Join(xs, ";") + "}"
	}
	return fmt.Sprintf("#%d", v.I)
}

// two instants inside one second, the zero time.Time (an unset struct field) and a far date
var leafTimes = []time.Time{time.Unix(1641092645, 0), time.Unix(1641092645, 500000000), {}, time.Date(9999, 12, 31, 23, 59, 59, 0, time.UTC)}

// leaf domains: (Go value, reference value)
func leafValue(k string, i int) (reflect.Value, *ref.V) {
	switch k {
	case "int":
		xs := []int{0, -3, 1 << 40}
		return reflect.ValueOf(xs[i%3]), ref.NumV(float64(xs[i%3]))
	case "int8":
		xs := []int8{-128, 5}
		return reflect.ValueOf(xs[i%2]), ref.NumV(float64(xs[i%2]))
	case "uint16":
		xs := []uint16{0, 65535}
		return reflect.ValueOf(xs[i%2]), ref.NumV(float64(xs[i%2]))
	case "float32":
		xs := []float32{0.5, -2}
		return reflect.ValueOf(xs[i%2]), ref.NumV(float64(xs[i%2]))
	case "float64":
		xs := []float64{1.5, -0.25, 1e300}
		return reflect.ValueOf(xs[i%3]), ref.NumV(xs[i%3])
	case "string":
		xs := []string{"", "é日"}
		return reflect.ValueOf(xs[i%2]), ref.StrV(xs[i%2])
	case "bool":
		return reflect.ValueOf(i%2 == 0), ref.BoolV(i%2 == 0)
	case "time":
		return reflect.ValueOf(leafTimes[i%4]), ref.TimeV(leafTimes[i%4])
	}
	panic("leaf " + k)
}

func leafCount(k string) int {
	switch k {
	case "int", "float64":
		return 3
	case "time":
		return 4
	}
	return 2
}

func isLeaf(k string) bool {
	switch k {
	case "int", "int8", "uint16", "float32", "float64", "string", "bool", "time":
		return true
	}
	return false
}

// build makes the Go value.
func (s *shape) build(v *gv) reflect.Value {
	t := s.goType()
	if v.Nil {
		return reflect.Zero(t)
	}
	switch s.K {
	case "ptr":
		p := reflect.New(s.Elem.goType())
		p.Elem().Set(s.Elem.build(v.Elems[0]))
		return p
	case "iface":
		x := reflect.New(ifaceType).Elem()
		x.Set(v.Dyn.build(v.Elems[0]))
		return x
	case "slice":
		sl := reflect.MakeSlice(t, len(v.Elems), len(v.Elems))
		for i, e := range v.Elems {
			sl.Index(i).Set(s.Elem.build(e))
		}
		return sl
	case "array":
		a := reflect.New(t).Elem()
		for i, e := range v.Elems {
			a.Index(i).Set(s.Elem.build(e))
		}
		return a
	case "map":
		m := reflect.MakeMap(t)
		for i, e := range v.Elems {
			var k reflect.Value
			if isLeaf(s.Key.K) {
				k, _ = leafValue(s.Key.K, i)
			} else {
				kvs := s.Key.values(1)
				k = s.Key.build(kvs[i%len(kvs)])
			}
			m.SetMapIndex(k, s.Elem.build(e))
		}
		return m
	case "struct":
		st := reflect.New(t).Elem()
		for i, e := range v.Elems {
			st.Field(i).Set(s.Fields[i].S.build(e))
		}
		return st
	case "chan":
		return reflect.ValueOf(make(chan int))
	case "func":
		return reflect.ValueOf(func() {})
	case "complex":
		return reflect.ValueOf(complex(1, 2))
	case "uintptr":
		return reflect.ValueOf(uintptr(7))
	}
	x, _ := leafValue(s.K, v.I)
	return x
}

// staticType: the type the language assigns to a Go type alone (pointers stripped; structs with
// their optional markers); ok=false when the Go type has no language type (interfaces,
// unsupported kinds, non-primitive map keys, duplicate field names).
func (s *shape) staticType(depth int) (*gen.Ty, bool) {
	if depth > 100 {
		return nil, false
	}
	switch s.K {
	case "int", "int8", "uint16", "float32", "float64":
		return gen.Num, true
	case "string":
		return gen.Str, true
	case "bool":
		return gen.Bool, true
	case "time":
		return gen.Time, true
	case "ptr":
		return s.Elem.staticType(depth) // pointers are transparent
	case "slice", "array":
		e, ok := s.Elem.staticType(depth + 1)
		if !ok {
			return nil, false
		}
		return gen.List(e), true
	case "map":
		k, ok1 := s.Key.staticType(depth + 1)
		e, ok2 := s.Elem.staticType(depth + 1)
		if !ok1 || !ok2 || !k.IsPrim() {
			return nil, false
		}
		return gen.Map(k, e), true
	case "struct":
		var fs []gen.FieldTy
		seen := map[string]bool{}
		for i, f := range s.Fields {
			ft, ok := f.S.staticType(depth + 1)
			if !ok {
				return nil, false
			}
			if f.Maybe {
				ft = gen.Maybe(ft)
			}
			name := f.Tag
			if name == "" {
				name = fmt.Sprintf("F%d", i)
			}
			if seen[name] {
				return nil, false
			}
			seen[name] = true
			fs = append(fs, gen.FieldTy{Name: name, T: ft})
		}
		return gen.Obj(fs...), true
	}
	return nil, false
}

// refConv: the documented conversion of a described value: (value, true) or failure.
// asField reports conversion in struct-field position, where absence becomes an optional.
func (s *shape) refConv(v *gv, depth int) (*ref.V, bool) {
	if depth > 100 {
		return nil, false
	}
	switch s.K {
	case "ptr", "iface":
		if v.Nil {
			return nil, false
		}
		in, inner := s.Elem, v.Elems[0]
		if s.K == "iface" {
			in = v.Dyn
		}
		// a nil slice / map reached through a pointer or interface is an empty container (only a nil
		// at the top level, as an element or as a key is unsupported)
		if inner.Nil && (in.K == "slice" || in.K == "map") {
			t, ok := in.staticType(depth)
			if !ok {
				return nil, false
			}
			return &ref.V{T: t}, true
		}
		return in.refConv(inner, depth) // dereferencing does not add a level
	case "slice", "array":
		if s.K == "slice" && v.Nil {
			return nil, false
		}
		if len(v.Elems) == 0 {
			t, ok := s.staticType(depth)
			if !ok {
				return nil, false
			}
			return &ref.V{T: t}, true
		}
		out := &ref.V{}
		for _, e := range v.Elems {
			ev, ok := s.Elem.refConv(e, depth+1)
			if !ok {
				return nil, false
			}
			if len(out.L) > 0 && !gen.Equal(out.L[0].T, ev.T) {
				return nil, false
			}
			out.L = append(out.L, ev)
		}
		out.T = gen.List(out.L[0].T)
		return out, true
	case "map":
		if v.Nil {
			return nil, false
		}
		if len(v.Elems) == 0 {
			t, ok := s.staticType(depth)
			if !ok {
				return nil, false
			}
			return &ref.V{T: t}, true
		}
		if !isLeaf(s.Key.K) {
			return nil, false
		}
		out := &ref.V{}
		for i, e := range v.Elems {
			_, kv := leafValue(s.Key.K, i)
			ev, ok := s.Elem.refConv(e, depth+1)
			if !ok {
				return nil, false
			}
			if len(out.MV) > 0 && !gen.Equal(out.MV[0].T, ev.T) {
				return nil, false
			}
			out.MapPut(kv, ev)
		}
		out.T = gen.Map(out.MK[0].T, out.MV[0].T)
		return out, true
	case "struct":
		out := &ref.V{}
		var fts []gen.FieldTy
		seen := map[string]bool{}
		for i, f := range s.Fields {
			name := f.Tag
			if name == "" {
				name = fmt.Sprintf("F%d", i)
			}
			if seen[name] {
				return nil, false
			}
			seen[name] = true
			fv := v.Elems[i]
			var x *ref.V
			if fv.Nil && (f.S.K == "ptr" || f.S.K == "slice" || f.S.K == "map" || f.S.K == "iface" || f.S.K == "chan" || f.S.K == "func") {
				// an absent field is the absent optional of the field's static type
				t, ok := f.S.staticType(0)
				if !ok {
					return nil, false
				}
				x = ref.NothingV(t)
			} else {
				cv, ok := f.S.refConv(fv, depth+1)
				if !ok {
					return nil, false
				}
				x = cv
				if f.Maybe {
					x = ref.JustV(cv)
				}
			}
			out.OF = append(out.OF, name)
			out.OV = append(out.OV, x)
			fts = append(fts, gen.FieldTy{Name: name, T: x.T})
		}
		out.T = gen.Obj(fts...)
		return out, true
	case "chan", "func", "complex", "uintptr":
		return nil, false
	}
	_, rv := leafValue(s.K, v.I)
	return rv, true
}

// stable: no interface-typed part, and every nil-able part is non-nil or declared optional —
// the class of values for which the property promises one type per Go type.
func (s *shape) stableValue(v *gv, declaredOptional bool) bool {
	switch s.K {
	case "iface", "chan", "func", "complex", "uintptr":
		return false
	case "ptr":
		if v.Nil {
			return declaredOptional
		}
		return s.Elem.stableValue(v.Elems[0], false)
	case "slice", "map":
		if v.Nil {
			return declaredOptional
		}
		fallthrough
	case "array":
		if s.K == "map" && !isLeaf(s.Key.K) {
			return false
		}
		for _, e := range v.Elems {
			if !s.Elem.stableValue(e, false) {
				return false
			}
		}
		return s.Elem.noIface()
	case "struct":
		for i, e := range v.Elems {
			if !s.Fields[i].S.stableValue(e, s.Fields[i].Maybe) {
				return false
			}
		}
		return true
	}
	return true
}

func (s *shape) noIface() bool {
	switch s.K {
	case "iface", "chan", "func", "complex", "uintptr":
		return false
	case "ptr", "slice", "array":
		return s.Elem.noIface()
	case "map":
		return s.Key.noIface() && s.Elem.noIface()
	case "struct":
		for _, f := range s.Fields {
			if !f.S.noIface() {
				return false
			}
		}
	}
	return true
}

// values enumerates the value descriptions of a shape (small domain per leaf; nil / empty /
// one / two elements per container).
func (s *shape) values(max int) []*gv {
	var out []*gv
	switch s.K {
	case "ptr":
		out = append(out, &gv{Nil: true})
		for _, e := range s.Elem.values(2) {
			out = append(out, &gv{Elems: []*gv{e}})
		}
	case "iface":
		out = append(out, &gv{Nil: true})
		for _, d := range []*shape{{K: "int"}, {K: "string"}, {K: "slice", Elem: &shape{K: "int"}}, {K: "struct", Fields: []shapeField{{Tag: "p", S: &shape{K: "bool"}}}}} {
			out = append(out, &gv{Dyn: d, Elems: []*gv{d.values(1)[len(d.values(1))-1]}})
		}
	case "slice":
		out = append(out, &gv{Nil: true}, &gv{})
		es := s.Elem.values(3)
		for _, a := range es {
			out = append(out, &gv{Elems: []*gv{a}})
		}
		for _, a := range diverse(es, s.Elem) {
			for _, b := range diverse(es, s.Elem) {
				out = append(out, &gv{Elems: []*gv{a, b}})
			}
		}
	case "array":
		es := s.Elem.values(2)
		for _, a := range es {
			for _, b := range es {
				out = append(out, &gv{Elems: []*gv{a, b}})
			}
		}
	case "map":
		out = append(out, &gv{Nil: true}, &gv{})
		es := s.Elem.values(3)
		for _, a := range es {
			out = append(out, &gv{Elems: []*gv{a}})
		}
		if isLeaf(s.Key.K) && leafCount(s.Key.K) >= 2 {
			for _, a := range diverse(es, s.Elem) {
				for _, b := range diverse(es, s.Elem) {
					out = append(out, &gv{Elems: []*gv{a, b}})
				}
			}
		}
	case "struct":
		lists := make([][]*gv, len(s.Fields))
		for i, f := range s.Fields {
			lists[i] = f.S.values(3)
		}
		idx := make([]int, len(lists))
		for {
			e := make([]*gv, len(lists))
			for i := range lists {
				e[i] = lists[i][idx[i]]
			}
			out = append(out, &gv{Elems: e})
			j := len(idx) - 1
			for ; j >= 0; j-- {
				idx[j]++
				if idx[j] < len(lists[j]) {
					break
				}
				idx[j] = 0
			}
			if j < 0 || len(lists) == 0 {
				break
			}
		}
	case "chan", "func", "complex", "uintptr":
		out = append(out, &gv{})
	default:
		for i := 0; i < leafCount(s.K); i++ {
			out = append(out, &gv{I: i})
		}
	}
	if max > 0 && len(out) > max*8 {
		out = out[:max*8]
	}
	return out
}

// diverse picks one value per distinct outcome of the reference conversion (each distinct type,
// plus one unconvertible value): homogeneity of containers is about exactly these differences.
func diverse(es []*gv, s *shape) []*gv {
	seen := map[string]bool{}
	var out []*gv
	for _, e := range es {
		k := "unconvertible"
		if v, ok := s.refConv(e, 1); ok {
			k = v.T.String()
		}
		if e.Nil {
			k += "/nil"
		}
		if !seen[k] {
			seen[k] = true
			out = append(out, e)
		}
	}
	if len(out) > 6 {
		out = out[:6]
	}
	return out
}

// spread picks first, middle and last of a value list (nested domains are bounded this way; the
// picks differ in nil-ness / emptiness because value lists start with nil and end with full values).
func spread(es []*gv) []*gv {
	if len(es) <= 3 {
		return es
	}
	return []*gv{es[0], es[len(es)/2], es[len(es)-1]}
}
