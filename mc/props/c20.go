package props

import (
	"encoding/json"
	"fmt"
	"regexp"
	"strconv"
	"strings"
	"time"

	"github.com/goghcrow/yae/ext"
	"github.com/goghcrow/yae/parser/ast"
	"github.com/goghcrow/yae/parser/pos"
	"github.com/goghcrow/yae/types"
	"github.com/goghcrow/yae/val"

	"verif/mc/engine"
	"verif/mc/gen"
	"verif/mc/ref"
)

// C20 — generated SQL keeps the criteria's boolean structure and quotes literals safely.
type c20 struct{}

func init() { engine.Register(c20{}) }

func (c20) ID() string { return "C20" }

func (c20) Meta(tier string) engine.Meta {
	return engine.Meta{
		Level: "model_checking",
		Rule: "all criteria trees of depth <= 2 over binary AND / OR, unary NOT and 15 leaf conditions (=, <>, >, >=, <, <=, IN, BETWEEN, LIKE, IS NULL on number, string, boolean and time columns; operands that are literals, names bound in the run-time environment and unbound names) (thorough: depth 3 over 3 leaves), plus every adversarial operand (quotes, backslashes, comment markers, newline, NUL, non-ASCII, SQL fragments; numbers -1, 0.5, 2^53, 2^63, 1e300, -0) in every string- / number-taking condition inside four tree contexts. Each criteria value (operand slices built with spare capacity) is lowered twice and each result rendered twice; all four texts must be identical. Oracle: the text is re-read by a tokenizer + precedence reader with standard SQL precedence; the resulting tree must equal the input tree modulo flattening of AND / OR; each operand must be exactly one token that decodes to the operand (strings) / parses back to the same double in plain numeric form / is 1 or 0 / from_unixtime(n); bound names appear as their values, unbound names as back-quoted columns. non-trivial = trees with at least one connective",
		Bound: "depth 2 × 11 leaves (thorough depth 3 × 3 leaves); 14 adversarial strings, 8 numbers",
		Assumptions: []string{"double-quoted literals with backslash escapes (the generator's quoting convention) are read the way MySQL reads them: a backslash escapes the next character"},
	}
}

type sqlOperand struct {
	Kind string       `json:"kind"` // num str bool time name list
	N    float64      `json:"n,omitempty"`
	Text string       `json:"text,omitempty"`
	S    string       `json:"s,omitempty"`
	B    bool         `json:"b,omitempty"`
	Name string       `json:"name,omitempty"`
	List []sqlOperand `json:"list,omitempty"`
}

type crit struct {
	Op       string       `json:"op"` // AND OR NOT or a leaf operator
	Kids     []*crit      `json:"kids,omitempty"`
	Field    string       `json:"field,omitempty"`
	Operands []sqlOperand `json:"operands,omitempty"`
}

func (c *crit) String() string {
	if len(c.Kids) > 0 || c.Op == "NOT" {
		xs := make([]string, len(c.Kids))
		for i, k := range c.Kids {
			xs[i] = k.String()
		}
		return "(" + c.Op + " " + strings.Join(xs, " ") + ")"
	}
	xs := []string{c.Field}
	for _, o := range c.Operands {
		xs = append(xs, o.str())
	}
	return "[" + c.Op + " " + strings.Join(xs, " ") + "]"
}

func (o sqlOperand) str() string {
	switch o.Kind {
	case "num":
		return o.Text
	case "str":
		return o.Text + strconv.Quote(o.S)
	case "bool":
		return fmt.Sprint(o.B)
	case "time":
		return "'" + o.Text + "'"
	case "name":
		return "$" + o.Name
	case "member":
		return "$" + o.Name + "." + o.Text
	}
	xs := make([]string, len(o.List))
	for i, e := range o.List {
		xs[i] = e.str()
	}
	return "(" + strings.Join(xs, ",") + ")"
}

func numOp(text string) sqlOperand {
	n, _ := strconv.ParseFloat(text, 64)
	return sqlOperand{Kind: "num", N: n, Text: text}
}
func strOp(s string) sqlOperand  { return sqlOperand{Kind: "str", S: s} }
func nameOp(n string) sqlOperand { return sqlOperand{Kind: "name", Name: n} }

// memberOp: a field of the run-time object `obj` ({n: 5, s: sv, t: instant}, stored in another field
// order than its type declares).
func memberOp(field string) sqlOperand { return sqlOperand{Kind: "member", Name: "obj", Text: field} }

// model: columns and the run-time bindings
var c20Model = map[string]*types.Type{
	"a": types.Num, "s": types.Str, "b": types.Bool, "t": types.Time,
	"u": types.Num, "sv": types.Str, "n2": types.Num, "tv": types.Time, "bv": types.Bool, "tb": types.Time,
}

// tb: an instant bound at run time, three quarters of a second after a whole second
var c20BoundTime = time.Unix(1641092645, 750000000)

type c20Bind struct {
	U  float64 `json:"u"`
	SV string  `json:"sv"`
}

func c20Leaves() []*crit {
	return []*crit{
		{Op: "=", Field: "a", Operands: []sqlOperand{numOp("1")}},
		{Op: "<>", Field: "s", Operands: []sqlOperand{strOp(`x"y`)}},
		{Op: "IN", Field: "a", Operands: []sqlOperand{{Kind: "list", List: []sqlOperand{numOp("1"), numOp("2.5"), nameOp("u")}}}},
		{Op: "BETWEEN", Field: "a", Operands: []sqlOperand{numOp("1"), nameOp("n2")}},
		{Op: "LIKE", Field: "s", Operands: []sqlOperand{strOp("h%")}},
		{Op: "ISNULL", Field: "a"},
		{Op: "=", Field: "b", Operands: []sqlOperand{{Kind: "bool", B: true}}},
		{Op: ">", Field: "t", Operands: []sqlOperand{{Kind: "time", Text: "2022-01-02 03:04:05"}}},
		{Op: "<=", Field: "a", Operands: []sqlOperand{nameOp("u")}},
		{Op: ">=", Field: "u", Operands: []sqlOperand{nameOp("n2")}},
		{Op: "=", Field: "s", Operands: []sqlOperand{nameOp("sv")}},
		{Op: "<", Field: "a", Operands: []sqlOperand{memberOp("n")}},
		{Op: ">=", Field: "t", Operands: []sqlOperand{nameOp("tb")}},
		{Op: "IN", Field: "a", Operands: []sqlOperand{{Kind: "list", List: []sqlOperand{nameOp("u"), numOp("0")}}}},
		{Op: "IN", Field: "s", Operands: []sqlOperand{{Kind: "list", List: []sqlOperand{strOp("k"), nameOp("sv"), strOp("z")}}}},
	}
}

var c20Strings = []string{`"`, `'`, `\`, `\"`, `";--`, "\n", "\x00", "é", `" OR "1"="1`, "%", "", `a\`, "`", "\\\\\"", "日本\t"}
var c20Numbers = []string{"0", "0.5", "9007199254740992", "9223372036854775808", "1e300", "123456789.125", "1e-7"}
var c20BoundNums = []float64{-1, -0.5, 0, 9223372036854775808, 1e300, -1e300, 1e-7}

func (c20) Generate(tier string, yield func(*engine.Case) bool) {
	ok := true
	emit := func(fam string, c *crit, bind c20Bind) {
		if !ok {
			return
		}
		lazy := func() json.RawMessage {
			b, _ := json.Marshal(struct {
				C *crit   `json:"c"`
				B c20Bind `json:"b"`
			}{c, bind})
			return b
		}
		if !yield(&engine.Case{Family: fam, Key: fmt.Sprintf("%s|u=%v|sv=%q", c, bind.U, bind.SV), Lazy: lazy}) {
			ok = false
		}
	}
	std := c20Bind{U: 42, SV: `q"uo\te`}
	leaves := c20Leaves()
	depth := 2
	if tier == "thorough" {
		depth = 3
		leaves = leaves[:3]
	}
	var trees func(d int) []*crit
	memo := map[int][]*crit{}
	trees = func(d int) []*crit {
		if t, ok := memo[d]; ok {
			return t
		}
		out := append([]*crit(nil), leaves...)
		if d > 0 {
			sub := trees(d - 1)
			for _, x := range sub {
				out = append(out, &crit{Op: "NOT", Kids: []*crit{x}})
			}
			for _, op := range []string{"AND", "OR"} {
				for _, x := range sub {
					for _, y := range sub {
						out = append(out, &crit{Op: op, Kids: []*crit{x, y}})
					}
				}
			}
		}
		memo[d] = out
		return out
	}
	for _, t := range trees(depth) {
		emit("tree", t, std)
		if !ok {
			return
		}
	}
	if tier == "thorough" {
		for _, t := range func() []*crit { memo = map[int][]*crit{}; leaves = c20Leaves(); return trees(2) }() {
			emit("tree", t, std)
		}
	}
	// one leaf per overload of the SQL function table, alone and under NOT / AND
	{
		tm := sqlOperand{Kind: "time", Text: "2022-01-02 03:04:05"}
		var all []*crit
		for _, op := range []string{"=", "<>", ">", ">=", "<", "<="} {
			all = append(all, &crit{Op: op, Field: "a", Operands: []sqlOperand{numOp("2.5")}}, &crit{Op: op, Field: "t", Operands: []sqlOperand{tm}},
				&crit{Op: op, Field: "t", Operands: []sqlOperand{nameOp("tv")}}, &crit{Op: op, Field: "u", Operands: []sqlOperand{nameOp("a")}})
		}
		for _, op := range []string{"=", "<>"} {
			all = append(all, &crit{Op: op, Field: "s", Operands: []sqlOperand{strOp("v")}}, &crit{Op: op, Field: "b", Operands: []sqlOperand{{Kind: "bool", B: false}}},
				&crit{Op: op, Field: "b", Operands: []sqlOperand{nameOp("bv")}})
		}
		all = append(all, &crit{Op: "BETWEEN", Field: "t", Operands: []sqlOperand{tm, nameOp("tv")}}, &crit{Op: "BETWEEN", Field: "a", Operands: []sqlOperand{nameOp("u"), numOp("9")}},
			&crit{Op: "IN", Field: "s", Operands: []sqlOperand{{Kind: "list", List: []sqlOperand{strOp("x"), nameOp("sv")}}}}, &crit{Op: "IN", Field: "t", Operands: []sqlOperand{{Kind: "list", List: []sqlOperand{tm}}}},
			&crit{Op: "ISNULL", Field: "s"}, &crit{Op: "ISNULL", Field: "t"}, &crit{Op: "ISNULL", Field: "b"}, &crit{Op: "LIKE", Field: "sv", Operands: []sqlOperand{nameOp("s")}})
		for _, l := range all {
			emit("every-sql-overload", l, std)
			emit("every-sql-overload", &crit{Op: "NOT", Kids: []*crit{l}}, std)
			emit("every-sql-overload", &crit{Op: "AND", Kids: []*crit{l, {Op: "OR", Kids: []*crit{l, l}}}}, std)
		}
	}
	// adversarial operands in every condition that takes them, inside four contexts
	other := &crit{Op: "=", Field: "a", Operands: []sqlOperand{numOp("1")}}
	ctxs := []func(x *crit) *crit{
		func(x *crit) *crit { return x },
		func(x *crit) *crit { return &crit{Op: "AND", Kids: []*crit{{Op: "NOT", Kids: []*crit{x}}, other}} },
		func(x *crit) *crit { return &crit{Op: "OR", Kids: []*crit{other, {Op: "AND", Kids: []*crit{x, other}}}} },
		func(x *crit) *crit { return &crit{Op: "AND", Kids: []*crit{{Op: "OR", Kids: []*crit{x, other}}, x}} },
	}
	for _, s := range c20Strings {
		for _, op := range []string{"=", "<>", "LIKE"} {
			for _, cf := range ctxs {
				emit("strings", cf(&crit{Op: op, Field: "s", Operands: []sqlOperand{strOp(s)}}), std)
				emit("strings", cf(&crit{Op: op, Field: "s", Operands: []sqlOperand{nameOp("sv")}}), c20Bind{U: 1, SV: s})
				emit("strings", cf(&crit{Op: op, Field: "sv", Operands: []sqlOperand{strOp(s)}}), c20Bind{U: 1, SV: s})
				emit("strings", cf(&crit{Op: op, Field: "s", Operands: []sqlOperand{memberOp("s")}}), c20Bind{U: 1, SV: s})
			}
		}
	}
	// the same operands written in other literal spellings (raw strings, \u escapes)
	for _, sv := range c20Strings {
		for _, form := range []string{"raw", "uesc"} {
			if form == "raw" && strings.Contains(sv, "`") {
				continue
			}
			if form == "uesc" {
				big := false
				for _, r := range sv {
					if r > 0xffff {
						big = true
					}
				}
				if big {
					continue
				}
			}
			for _, op := range []string{"=", "LIKE"} {
				for _, cf := range ctxs[:2] {
					emit("string-spellings", cf(&crit{Op: op, Field: "s", Operands: []sqlOperand{{Kind: "str", S: sv, Text: form}}}), std)
				}
			}
		}
	}
	for _, n := range c20Numbers {
		for _, op := range []string{"=", "<>", ">", ">=", "<", "<="} {
			for _, cf := range ctxs {
				emit("numbers", cf(&crit{Op: op, Field: "a", Operands: []sqlOperand{numOp(n)}}), std)
			}
		}
		emit("numbers", &crit{Op: "BETWEEN", Field: "a", Operands: []sqlOperand{numOp(n), numOp(n)}}, std)
		emit("numbers", &crit{Op: "IN", Field: "a", Operands: []sqlOperand{{Kind: "list", List: []sqlOperand{numOp(n), nameOp("u")}}}}, std)
	}
	for _, u := range c20BoundNums {
		for _, op := range []string{"=", "<", ">="} {
			for _, cf := range ctxs {
				emit("numbers", cf(&crit{Op: op, Field: "a", Operands: []sqlOperand{nameOp("u")}}), c20Bind{U: u, SV: "x"})
				emit("numbers", cf(&crit{Op: op, Field: "u", Operands: []sqlOperand{numOp("1")}}), c20Bind{U: u, SV: "x"})
			}
		}
	}
}

var sqlOps = map[string]string{"=": "=", "<>": "<>", ">": ">", ">=": ">=", "<": "<", "<=": "<=", "IN": "IN", "BETWEEN": "BETWEEN", "LIKE": "LIKE", "ISNULL": "ISNULL"}

func toAstOperand(o sqlOperand) ast.Expr {
	switch o.Kind {
	case "num":
		return ast.Num(o.Text, pos.Unknown)
	case "str":
		switch o.Text {
		case "raw": // the same string written as a raw literal
			return ast.Str("`"+o.S+"`", pos.Unknown)
		case "uesc": // every character written as a \u escape
			t := "\""
			for _, r := range o.S {
				t += fmt.Sprintf("\\u%04x", r)
			}
			return ast.Str(t+"\"", pos.Unknown)
		}
		return ast.Str(strconv.Quote(o.S), pos.Unknown)
	case "bool":
		if o.B {
			return ast.True(pos.Unknown)
		}
		return ast.False(pos.Unknown)
	case "time":
		return ast.Time("'"+o.Text+"'", pos.Unknown)
	case "name":
		return ast.Var(o.Name, pos.Unknown)
	case "member":
		return ast.Member(ast.Var(o.Name, pos.Unknown), ast.Var(o.Text, pos.Unknown), pos.UnknownCol, pos.Unknown)
	}
	els := make([]ast.Expr, len(o.List))
	for i, e := range o.List {
		els[i] = toAstOperand(e)
	}
	return ast.List(els, pos.Unknown)
}

func toCriteria(c *crit) ext.Criteria {
	switch c.Op {
	case "AND", "OR", "NOT":
		lo := map[string]ext.LogicalOper{"AND": ext.AND, "OR": ext.OR, "NOT": ext.NOT}[c.Op]
		g := ext.CondGroup{LogicalOper: lo}
		for _, k := range c.Kids {
			g.Conds = append(g.Conds, toCriteria(k))
		}
		return g
	}
	// the operand slice has spare capacity, as a slice built with append usually has
	ops := make([]ast.Expr, len(c.Operands), len(c.Operands)+3)
	for i, o := range c.Operands {
		ops[i] = toAstOperand(o)
	}
	return ext.Cond{Field: c.Field, Operator: sqlOps[c.Op], Operands: ops}
}

var plainNum = regexp.MustCompile(`^-?[0-9]+(\.[0-9]+)?$`)

// checkOperand: does the token carry exactly this operand?
func checkOperand(want sqlOperand, got ref.SQLTok, bind c20Bind) string {
	if want.Kind == "member" {
		switch want.Text {
		case "n":
			want = sqlOperand{Kind: "num", N: 5}
		case "s":
			want = strOp(bind.SV)
		}
	}
	if want.Kind == "name" {
		switch want.Name {
		case "u":
			want = sqlOperand{Kind: "num", N: bind.U}
		case "sv":
			want = strOp(bind.SV)
		case "tb":
			if got.Kind != "time" || got.Val != strconv.FormatInt(c20BoundTime.Unix(), 10) {
				return fmt.Sprintf("the bound instant %s should appear as from_unixtime(%d), got %s", c20BoundTime.UTC().Format(time.RFC3339Nano), c20BoundTime.Unix(), got.Text)
			}
			return ""
		default:
			if got.Kind != "ident" || got.Val != want.Name {
				return fmt.Sprintf("unbound name %s should appear as the column `%s`, got %s", want.Name, want.Name, got.Text)
			}
			return ""
		}
	}
	switch want.Kind {
	case "num":
		if got.Kind != "num" || !plainNum.MatchString(got.Text) {
			return fmt.Sprintf("number %v should be a plain SQL numeric literal, got %s", want.N, got.Text)
		}
		if f, err := strconv.ParseFloat(got.Text, 64); err != nil || f != want.N {
			return fmt.Sprintf("number %v appears as %s, which reads back as %v", want.N, got.Text, f)
		}
	case "str":
		if got.Kind != "str" || got.Val != want.S {
			return fmt.Sprintf("string %q appears as %s (decodes to %q)", want.S, got.Text, got.Val)
		}
	case "bool":
		w := "0"
		if want.B {
			w = "1"
		}
		if got.Kind != "num" || got.Text != w {
			return fmt.Sprintf("boolean %v should appear as %s, got %s", want.B, w, got.Text)
		}
	case "time":
		tm, _ := ref.ParseAbsTime(want.Text)
		if got.Kind != "time" || got.Val != strconv.FormatInt(tm.Unix(), 10) {
			return fmt.Sprintf("time %s should appear as from_unixtime(%d), got %s", want.Text, tm.Unix(), got.Text)
		}
	}
	return ""
}

func compareCrit(want *crit, got *ref.SQLNode, bind c20Bind) string {
	switch want.Op {
	case "AND", "OR", "NOT":
		if got.Op != want.Op || len(got.Kids) != len(want.Kids) {
			return fmt.Sprintf("expected %s over %d conditions, the text reads as %s", want.Op, len(want.Kids), got)
		}
		for i := range want.Kids {
			if m := compareCrit(want.Kids[i], got.Kids[i], bind); m != "" {
				return m
			}
		}
		return ""
	}
	if got.Op != want.Op {
		return fmt.Sprintf("expected condition %s, the text reads as %s", want, got)
	}
	var flat []sqlOperand
	flat = append(flat, nameOp(want.Field))
	for _, o := range want.Operands {
		if o.Kind == "list" {
			flat = append(flat, o.List...)
		} else {
			flat = append(flat, o)
		}
	}
	if len(flat) != len(got.Args) {
		return fmt.Sprintf("condition %s has %d operands, the text has %d: %s", want, len(flat), len(got.Args), got)
	}
	for i := range flat {
		if m := checkOperand(flat[i], got.Args[i], bind); m != "" {
			return m
		}
	}
	return ""
}

func flattenCrit(c *crit) *crit {
	if c.Op != "AND" && c.Op != "OR" && c.Op != "NOT" {
		return c
	}
	out := &crit{Op: c.Op}
	for _, k := range c.Kids {
		fk := flattenCrit(k)
		if (c.Op == "AND" || c.Op == "OR") && fk.Op == c.Op {
			out.Kids = append(out.Kids, fk.Kids...)
		} else {
			out.Kids = append(out.Kids, fk)
		}
	}
	return out
}

func (c20) Run(c *engine.Case) *engine.Result {
	var d struct {
		C *crit   `json:"c"`
		B c20Bind `json:"b"`
	}
	if err := json.Unmarshal(c.Data, &d); err != nil {
		panic(err)
	}
	res := &engine.Result{NonTrivial: len(d.C.Kids) > 0}
	env1 := types.NewEnv()
	for _, n := range []string{"a", "s", "b", "t", "u", "sv", "n2", "tv", "bv", "tb"} {
		env1.Put(n, c20Model[n])
	}
	env1.Put("obj", types.Obj([]types.Field{{Name: "n", Val: types.Num}, {Name: "s", Val: types.Str}}))
	env := val.NewEnv()
	env.Put("u", val.Num(d.B.U))
	env.Put("sv", val.Str(d.B.SV))
	env.Put("tb", val.Time(c20BoundTime))
	{
		// stored with its fields in the other order than the model declares
		ot := types.Obj([]types.Field{{Name: "s", Val: types.Str}, {Name: "n", Val: types.Num}}).Obj()
		ov := val.Obj(ot).Obj()
		ov.V[0], ov.V[1] = val.Str(d.B.SV), val.Num(5)
		env.Put("obj", ov.Vl())
	}
	var text string
	var err error
	func() {
		defer func() {
			if r := recover(); r != nil {
				err = fmt.Errorf("panic: %v", r)
			}
		}()
		// ONE criteria value is lowered twice and each result rendered twice: the text judged below
		// is the LAST one, and all four must be the same text
		cr := toCriteria(d.C)
		var first string
		for i := 0; i < 2 && err == nil; i++ {
			f := ext.CompileToSql(cr, env1)
			for j := 0; j < 2 && err == nil; j++ {
				text, err = f(env)
				res.Execs++
				if i+j == 0 {
					first = text
				} else if err == nil && text != first {
					res.Violations = append(res.Violations, vf("sql-depends-on-history", "%s: the same criteria value gives %q and then %q", d.C, first, text))
				}
			}
		}
	}()
	if err != nil {
		res.Outcome = "ERROR " + stable(err.Error())
		res.Violations = append(res.Violations, vf("sql-generation-failed", "%s: %v", d.C, err))
		return res
	}
	res.Outcome = text
	got, rerr := ref.ReadSQL(text)
	if rerr != nil {
		res.Violations = append(res.Violations, vf("sql-unreadable", "%s gives %q, which does not read as a WHERE expression: %v", d.C, text, rerr))
		return res
	}
	if m := compareCrit(flattenCrit(d.C), got.Flatten(), d.B); m != "" {
		cls := "sql-structure-mismatch"
		if strings.Contains(m, "appears as") || strings.Contains(m, "should") {
			cls = "sql-operand-mismatch"
		}
		res.Violations = append(res.Violations, vf(cls, "%s gives %q: %s", d.C, text, m))
	}
	return res
}

var _ = gen.Num
var _ = time.Now
