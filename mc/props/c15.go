package props

import (
	"fmt"
	"strconv"

	"github.com/goghcrow/yae"
	"github.com/goghcrow/yae/conv"
	"github.com/goghcrow/yae/types"
	"github.com/goghcrow/yae/val"

	"verif/mc/engine"
	"verif/mc/gen"
	"verif/mc/real"
	"verif/mc/ref"
	"verif/mc/seams"
)

// C15 — host data converts faithfully and its type depends only on its Go shape.
type c15 struct{}

func init() { engine.Register(c15{}) }

func (c15) ID() string { return "C15" }

func (c15) Meta(tier string) engine.Meta {
	return engine.Meta{
		Level: "model_checking",
		Rule: "all Go types of depth <= 3 built by reflection from {int,int8,uint16,float32,float64,string,bool,time.Time, interface, chan, func, complex, uintptr} with pointer / slice / array / map (string, int, float64, bool, time and struct keys) / struct constructors (fields untagged, renamed, `,maybe`, duplicate names; pointer, slice, map, interface and nested-struct fields), × all values over a 2–3 element domain per leaf with nil / non-nil pointers, nil / empty / one / two-element containers, nil and non-nil interfaces holding 4 dynamic shapes (a case is one Go type; its run enumerates the values and all ordered pairs of stable values), under map-iteration seeds 1 and 5. Oracle (reference conversion on the descriptions, no reflection): ValOf succeeds iff the description is convertible; the value is well formed (own reader), its type equals TypeOf(v) and the expected type, contents equal the original; ValEnvOf / TypeEnvOf agree field by field; for values without interface parts whose nil-able parts are non-nil or declared optional the type is the same for every value of the Go type, and an expression compiled against one such value accepts every other; unsupported or inconsistent data is an error, never a panic; depth-limit family: a number below n in {1,50,99,100,101,102,150,400} levels of slices / arrays / maps / structs / pointers to structs / a rotation of them converts iff n <= 100. non-trivial = types with at least one constructor",
		Bound: "type depth 3 (constructor alphabet narrowed at depth 3); value domains capped at 24 per nested position",
		Assumptions: []string{"struct field names are the tag name or the Go field name; pointer map keys are outside the alphabet"},
	}
}

func c15Shapes(tier string) []*shape {
	L := func(k string) *shape { return &shape{K: k} }
	leaves := []*shape{L("int"), L("float64"), L("string"), L("bool"), L("time")}
	all := []*shape{L("int8"), L("uint16"), L("float32"), L("iface"), L("chan"), L("func"), L("complex"), L("uintptr")}
	all = append(all, leaves...)
	st := func(fs ...shapeField) *shape { return &shape{K: "struct", Fields: fs} }
	f := func(tag string, maybe bool, s *shape) shapeField { return shapeField{Tag: tag, Maybe: maybe, S: s} }
	var d1 []*shape
	for _, l := range append(leaves, L("iface"), L("chan"), L("int8")) {
		d1 = append(d1, &shape{K: "ptr", Elem: l}, &shape{K: "slice", Elem: l}, &shape{K: "array", Elem: l},
			&shape{K: "map", Key: L("string"), Elem: l},
			st(f("a", false, l)), st(f("", false, l)), st(f("a", true, l)),
			st(f("a", false, &shape{K: "ptr", Elem: l})), st(f("a", true, &shape{K: "ptr", Elem: l})),
			st(f("a", false, &shape{K: "slice", Elem: l})), st(f("a", true, &shape{K: "slice", Elem: l})),
			st(f("a", false, &shape{K: "map", Key: L("string"), Elem: l})))
	}
	for _, k := range []string{"int", "float64", "bool", "time"} {
		d1 = append(d1, &shape{K: "map", Key: L(k), Elem: L("string")}, &shape{K: "map", Key: L(k), Elem: L("iface")})
	}
	pad := func(tag string, maybe bool, s *shape) shapeField { return shapeField{Tag: tag, Maybe: maybe, S: s, Pad: true} }
	d1 = append(d1, st(pad("a", true, &shape{K: "ptr", Elem: L("int")})), st(pad("a", false, L("int"))), st(pad("a", true, L("string")), f("b", false, L("int"))),
		st(pad("a", true, &shape{K: "slice", Elem: L("int")})))
	d1 = append(d1, st(), st(f("a", false, L("int")), f("a", false, L("string"))), st(f("x", false, L("int")), f("y", true, &shape{K: "ptr", Elem: L("string")})),
		st(f("x", false, L("int")), f("", false, L("func"))), &shape{K: "map", Key: st(f("k", false, L("int"))), Elem: L("int")})
	out := append(all, d1...)
	// depth 2 / 3: containers of depth-1 shapes
	var d2 []*shape
	inner := []*shape{}
	for _, s := range d1 {
		if s.K == "struct" || s.K == "slice" || s.K == "ptr" || (s.K == "map" && s.Key.K == "string") {
			if s.K != "struct" || len(s.Fields) <= 2 {
				inner = append(inner, s)
			}
		}
	}
	for i, s := range inner {
		d2 = append(d2, &shape{K: "slice", Elem: s}, &shape{K: "ptr", Elem: s}, st(f("o", false, s)), st(f("o", true, s)))
		if i%2 == 0 || tier == "thorough" {
			d2 = append(d2, &shape{K: "map", Key: L("string"), Elem: s}, &shape{K: "array", Elem: s}, st(f("p", false, L("int")), f("q", false, &shape{K: "slice", Elem: s})))
		}
	}
	out = append(out, d2...)
	var d3 []*shape
	for i, s := range d2 {
		if i%3 == 0 || tier == "thorough" {
			d3 = append(d3, &shape{K: "slice", Elem: s}, &shape{K: "ptr", Elem: s}, st(f("r", false, s)))
		}
	}
	return append(out, d3...)
}

// depth-limit family: a number at nesting level n below chains of one constructor (or a rotation
// of all of them); conversion succeeds iff n <= 100 (conv's documented nesting limit).
var c15DepthKinds = []string{"slice", "struct", "map", "ptrstruct", "array", "mixed"}

type c15Node struct{ V interface{} }

func c15DepthValue(kind string, n int) (interface{}, *ref.V) {
	var g interface{} = 7
	r := ref.NumV(7)
	for i := 0; i < n; i++ {
		k := kind
		if kind == "mixed" {
			k = c15DepthKinds[i%5]
		}
		switch k {
		case "slice":
			g = []interface{}{g}
			r = ref.ListV(r.T, r)
		case "array":
			g = [1]interface{}{g}
			r = ref.ListV(r.T, r)
		case "map":
			g = map[string]interface{}{"k": g}
			r = ref.MapV(gen.Str, r.T, ref.StrV("k"), r)
		case "struct":
			g = c15Node{g}
			r = ref.ObjV([]string{"V"}, r)
		case "ptrstruct":
			g = &c15Node{g}
			r = ref.ObjV([]string{"V"}, r)
		}
	}
	return g, r
}

func c15Depth(c *engine.Case) *engine.Result {
	res := &engine.Result{NonTrivial: true}
	kind := c.Args[1]
	n, _ := strconv.Atoi(c.Args[2])
	g, want := c15DepthValue(kind, n)
	got, err, pan := tryValOf(g)
	res.Execs++
	res.States++
	switch {
	case pan != "":
		res.Violations = append(res.Violations, vf("conv-panic", "ValOf of a number below %d levels of %s panicked: %s", n, kind, stable_(pan)))
	case n > 100 && err == nil:
		res.Violations = append(res.Violations, vf("depth-limit-not-reported", "ValOf accepted a number below %d levels of %s; nesting beyond 100 levels must be an error", n, kind))
	case n <= 100 && err != nil:
		res.Violations = append(res.Violations, vf("conv-rejects-valid", "ValOf rejected a number below %d levels of %s (%v); the limit is 100", n, kind, err))
	case err == nil:
		rv, werr := real.FromVal(got)
		if werr != nil || !ref.Same(rv, want) {
			res.Violations = append(res.Violations, vf("conv-wrong-contents", "ValOf of a number below %d levels of %s is not the original (%v)", n, kind, werr))
		}
	}
	if _, _, tpan := tryTypeOf(g); tpan != "" {
		res.Violations = append(res.Violations, vf("conv-panic", "TypeOf of a number below %d levels of %s panicked: %s", n, kind, stable_(tpan)))
	}
	res.Outcome = fmt.Sprintf("depth err=%v", err != nil)
	return res
}

func (c15) Generate(tier string, yield func(*engine.Case) bool) {
	for _, k := range c15DepthKinds {
		for _, n := range []int{1, 50, 99, 100, 101, 102, 150, 400} {
			if !yield(&engine.Case{Family: "depth-limit", Key: fmt.Sprintf("depth %s %d", k, n), Args: []string{"depth", k, strconv.Itoa(n)}}) {
				return
			}
		}
	}
	for i, s := range c15Shapes(tier) {
		if !yield(&engine.Case{Family: "gotype-" + s.K, Key: s.String(), Args: []string{strconv.Itoa(i)}}) {
			return
		}
	}
}

func tryValOf(v interface{}) (out *val.Val, err error, pan string) {
	defer func() {
		if r := recover(); r != nil {
			pan = fmt.Sprint(r)
		}
	}()
	out, err = conv.ValOf(v)
	return
}

func tryTypeOf(v interface{}) (out *types.Type, err error, pan string) {
	defer func() {
		if r := recover(); r != nil {
			pan = fmt.Sprint(r)
		}
	}()
	out, err = conv.TypeOf(v)
	return
}

func (c15) Run(c *engine.Case) *engine.Result {
	if c.Args[0] == "depth" {
		return c15Depth(c)
	}
	idx, _ := strconv.Atoi(c.Args[0])
	s := c15Shapes(engine.CurrentTier)[idx]
	res := &engine.Result{NonTrivial: !isLeaf(s.K)}
	bad := func(class, f string, a ...interface{}) {
		if len(res.Violations) < 6 {
			res.Violations = append(res.Violations, vf(class, f, a...))
		}
	}
	vals := s.values(0)
	outcomes := map[string]int{}
	type okVal struct {
		v  *gv
		rv *ref.V
		go_ interface{}
	}
	var stable []okVal
	for _, seed := range []int{1, 5} {
		seams.SetMapSeed(seed)
		for _, v := range vals {
			engine.HeartbeatCheap()
			res.States++
			gval := s.build(v).Interface()
			want, convertible := s.refConv(v, 0)
			desc := fmt.Sprintf("%s value %s", s, v.str(s))
			got, err, pan := tryValOf(gval)
			res.Execs++
			if pan != "" {
				bad("conv-panic", "ValOf(%s) panicked: %s", desc, stable_(pan))
				outcomes["panic"]++
				continue
			}
			if (err == nil) != convertible {
				if convertible {
					bad("conv-rejects-valid", "ValOf(%s) failed (%v), the data is convertible to %s", desc, err, want.T)
				} else {
					bad("conv-accepts-invalid", "ValOf(%s) succeeded with %s although the data is unsupported / inconsistent", desc, got)
				}
				outcomes["mismatch"]++
				continue
			}
			ty, terr, tpan := tryTypeOf(gval)
			res.Execs++
			if tpan != "" {
				bad("conv-panic", "TypeOf(%s) panicked: %s", desc, stable_(tpan))
				continue
			}
			if err != nil {
				outcomes["error"]++
				continue
			}
			outcomes["ok"]++
			rv, werr := real.FromVal(got)
			if werr != nil {
				bad("conv-illformed-value", "ValOf(%s) is ill-formed: %v", desc, werr)
				continue
			}
			if !gen.Equal(rv.T, want.T) {
				bad("conv-wrong-type", "ValOf(%s) has type %s, the Go shape maps to %s", desc, rv.T, want.T)
				continue
			}
			if !ref.Same(rv, want) {
				bad("conv-wrong-contents", "ValOf(%s) = %s, the original is %s", desc, rv.Describe(), want.Describe())
			}
			if terr != nil {
				bad("typeof-disagrees", "TypeOf(%s) fails (%v) although ValOf succeeds", desc, terr)
			} else if gt, e2 := real.FromType(ty, nil); e2 != nil || !gen.Equal(gt, rv.T) {
				bad("typeof-disagrees", "TypeOf(%s) = %v but ValOf(...).Type = %s", desc, gt, rv.T)
			}
			// environments
			if want.T.K == gen.KObj {
				tenv, e1 := conv.TypeEnvOf(gval)
				venv, e2 := conv.ValEnvOf(gval)
				res.Execs += 2
				if e1 != nil || e2 != nil {
					bad("env-conversion-fails", "TypeEnvOf / ValEnvOf(%s): %v %v", desc, e1, e2)
				} else {
					for i, name := range want.OF {
						tt, ok1 := tenv.Get(name)
						vv, ok2 := venv.Get(name)
						if !ok1 || !ok2 {
							bad("env-missing-name", "%s: field %s missing from the environment", desc, name)
							continue
						}
						gt, _ := real.FromType(tt, nil)
						fv, e3 := real.FromVal(vv)
						if gt == nil || e3 != nil || !gen.Equal(gt, want.OV[i].T) || !ref.Same(fv, want.OV[i]) {
							bad("env-disagrees", "%s: environment binds %s to %v : %v, the field is %s", desc, name, fv, gt, want.OV[i].Describe())
						}
					}
				}
			}
			if seed == 1 && s.stableValue(v, false) {
				stable = append(stable, okVal{v, rv, gval})
			}
		}
	}
	seams.SetMapSeed(1)
	// one type per Go type for stable values, and cross-acceptance
	for i, a := range stable {
		for j, b := range stable {
			if i == j {
				continue
			}
			res.States++
			if !gen.Equal(a.rv.T, b.rv.T) {
				bad("type-depends-on-value", "%s: value %s has type %s but value %s has type %s", s, a.v.str(s), a.rv.T, b.v.str(s), b.rv.T)
			}
		}
	}
	if len(stable) >= 2 {
		lim := len(stable)
		if lim > 12 {
			lim = 12
		}
		for i := 0; i < lim; i++ {
			for j := 0; j < lim; j++ {
				a, b := stable[i], stable[j]
				cb, err := yae.NewExpr().Compile("x", map[string]interface{}{"x": a.go_})
				res.Execs++
				if err != nil {
					bad("sample-does-not-compile", "%s: compiling `x` against value %s fails: %v", s, a.v.str(s), err)
					break
				}
				got, err := cb(map[string]interface{}{"x": b.go_})
				res.Execs++
				if err != nil {
					bad("sample-rejects-other-value", "%s: compiled against %s, invoked with %s: %v", s, a.v.str(s), b.v.str(s), err)
					continue
				}
				if rv, e := real.FromVal(got); e != nil || !ref.Same(rv, b.rv) {
					bad("conv-wrong-contents", "%s: `x` over %s evaluates to %v", s, b.v.str(s), rv)
				}
			}
		}
	}
	res.Outcome = fmt.Sprintf("%v stable=%d", outcomes, len(stable))
	return res
}

func stable_(s string) string { return stable(s) }
