package props

import (
	"verif/mc/gen"
	"verif/mc/real"
	"verif/mc/ref"
)

func bin(g *gen.Grammar, op string, a, b, r *gen.Ty) {
	g.Prod(op, r, []*gen.Ty{a, b}, func(x []*gen.Term) *gen.Term { return callTerm(op, x[0], x[1]) })
}

func un(g *gen.Grammar, op string, a, r *gen.Ty) {
	g.Prod(op, r, []*gen.Ty{a}, func(x []*gen.Term) *gen.Term { return callTerm(op, x[0]) })
}

func fn(g *gen.Grammar, name string, r *gen.Ty, ps ...*gen.Ty) {
	g.Prod(name, r, ps, func(x []*gen.Term) *gen.Term { return gen.CallT(name, x...) })
}

// smallGrammar: the compact alphabet used for depth-2 compositions.
func smallGrammar() (*gen.Grammar, real.EnvSpec) {
	env := real.EnvSpec{Rep: "raw", Binds: []real.Binding{
		{Name: "n", V: ref.NumV(2)},
		{Name: "s", V: ref.StrV("a")},
		{Name: "l", V: ref.ListV(gen.Num, nums(1, 2)...)},
		{Name: "m", V: ref.MapV(gen.Str, gen.Num, ref.StrV("a"), ref.NumV(1))},
		{Name: "o", V: oab(1, "x")},
	}}
	g := gen.NewGrammar()
	N, S, B := gen.Num, gen.Str, gen.Bool
	g.Atom(N, gen.NumT(0), gen.NumT(1), gen.NumT(0.5), gen.VarT("n"))
	g.Atom(S, gen.StrT(""), gen.VarT("s"))
	g.Atom(B, gen.BoolT(true), gen.BoolT(false))
	g.Atom(tyLNum, gen.VarT("l"))
	g.Atom(tyMSN, gen.VarT("m"))
	g.Atom(tyOAB, gen.VarT("o"))
	for _, op := range []string{"+", "-", "*", "/", "%"} {
		bin(g, op, N, N, N)
	}
	un(g, "-", N, N)
	fn(g, "round", N, N)
	fn(g, "max", N, N, N)
	fn(g, "len", N, S)
	fn(g, "len", N, tyLNum)
	g.Prod("sub-l", N, []*gen.Ty{tyLNum, N}, func(x []*gen.Term) *gen.Term { return gen.SubT(x[0], x[1]) })
	g.Prod("sub-m", N, []*gen.Ty{tyMSN, S}, func(x []*gen.Term) *gen.Term { return gen.SubT(x[0], x[1]) })
	g.Prod("mem-a", N, []*gen.Ty{tyOAB}, func(x []*gen.Term) *gen.Term { return gen.MemT(x[0], "a") })
	fn(g, "if", N, B, N, N)
	fn(g, "get", N, tyLNum, N, N)
	fn(g, "get", N, tyMSN, S, N)
	for _, op := range []string{"==", "<", "<="} {
		bin(g, op, N, N, B)
	}
	bin(g, "==", S, S, B)
	bin(g, "&&", B, B, B)
	bin(g, "||", B, B, B)
	un(g, "!", B, B)
	fn(g, "isset", B, tyMSN, S)
	bin(g, "==", tyLNum, tyLNum, B)
	bin(g, "+", S, S, S)
	fn(g, "string", S, N)
	g.Prod("mem-b", S, []*gen.Ty{tyOAB}, func(x []*gen.Term) *gen.Term { return gen.MemT(x[0], "b") })
	g.Prod("list1", tyLNum, []*gen.Ty{N}, func(x []*gen.Term) *gen.Term { return gen.ListT(x[0]) })
	g.Prod("list2", tyLNum, []*gen.Ty{N, N}, func(x []*gen.Term) *gen.Term { return gen.ListT(x[0], x[1]) })
	fn(g, "union", tyLNum, tyLNum, tyLNum)
	g.Prod("map1", tyMSN, []*gen.Ty{S, N}, func(x []*gen.Term) *gen.Term { return gen.MapT(x[0], x[1]) })
	g.Prod("obj", tyOAB, []*gen.Ty{N, S}, func(x []*gen.Term) *gen.Term { return gen.ObjT([]string{"a", "b"}, x[0], x[1]) })
	g.Prod("objr", tyOAB, []*gen.Ty{S, N}, func(x []*gen.Term) *gen.Term { return gen.ObjT([]string{"b", "a"}, x[0], x[1]) })
	return g, env
}
