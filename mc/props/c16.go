package props

import (
	"fmt"

	"verif/mc/engine"
	"verif/mc/gen"
	"verif/mc/real"
	"verif/mc/ref"
)

// C16 — optional values can only be consumed through a default (null safety).
type c16 struct{}

func init() { engine.Register(c16{}) }

func (c16) ID() string { return "C16" }

func (c16) Meta(tier string) engine.Meta {
	return engine.Meta{
		Level: "model_checking",
		Rule: "(a) for EVERY documented overload (polymorphic ones instantiated over 5 element types / 2 map shapes) and EVERY parameter position, the call with an optional-typed argument maybe[T] in that position — as a variable (present and absent), as an object field, as a list element and as a map value — all other arguments ordinary; (b) 168 direct uses of optionals (every kind of optional, present and absent, rendered / hashed through union / intersect / diff / string / list equality / map keys; member / subscript / operators / conditions / nesting / get with right and wrong defaults; maps, lists and objects of optionals mixed with the same containers of plain values under if / list / map / get / == / union); (c) containers (slices, maps, nested) of structs whose pointer field is present in some elements and absent in others — inconsistent data that must be refused, never evaluated with an absent value standing for a number — and one Callable invoked with a present and then an absent pointer of the same Go type; (d) all well-typed programs of depth <= 2 (one nested operand) over host structs whose pointer, slice and map fields are nil / non-nil, tagged `,maybe` and untagged (16 environments; the grammar follows the types each environment really has; 4 of them also with blank-padded, mixed-case struct tags). Oracle: compile-time acceptance equals the reference checker's (an optional is accepted only by a bare type variable or by get(maybe[a], a)); get yields the payload when present and the default otherwise; no accepted program fails at run time on any back end except where the reference predicts a documented partial-operation failure. non-trivial = every case",
		Bound: "built-in arity <= 3; depth 2; 16 host environments",
		Assumptions: []string{"reference typing rules of C05"},
	}
}

func (c16) Generate(tier string, yield func(*engine.Case) bool) {
	ok := true
	emit := func(c *engine.Case) {
		if ok && !yield(c) {
			ok = false
		}
	}
	// (a) every overload × every position
	for _, s := range ref.BuiltIns().Sigs {
		if !ok {
			return
		}
		instances(s, c04VarCands, func(ps []*gen.Ty) {
			for pos := range ps {
				if ps[pos].K == gen.KMaybe {
					continue
				}
				base := make([]*ref.V, len(ps))
				skip := false
				for i, p := range ps {
					pl := pool(p, false)
					if len(pl) == 0 {
						skip = true
						break
					}
					base[i] = pl[len(pl)-1]
				}
				if skip {
					return
				}
				for _, present := range []bool{true, false} {
					mb := ref.NothingV(ps[pos])
					if present {
						mb = ref.JustV(base[pos])
					}
					for _, how := range []string{"var", "field", "elem", "mapval"} {
						binds := []real.Binding{}
						args := make([]*gen.Term, len(ps))
						for i := range ps {
							n := fmt.Sprintf("x%d", i)
							if i != pos {
								binds = append(binds, real.Binding{Name: n, V: base[i]})
								args[i] = gen.VarT(n)
							}
						}
						switch how {
						case "var":
							binds = append(binds, real.Binding{Name: "mb", V: mb})
							args[pos] = gen.VarT("mb")
						case "field":
							binds = append(binds, real.Binding{Name: "ob", V: ref.ObjV([]string{"f", "g"}, mb, ref.NumV(1))})
							args[pos] = gen.MemT(gen.VarT("ob"), "f")
						case "elem":
							binds = append(binds, real.Binding{Name: "lm", V: ref.ListV(mb.T, mb)})
							args[pos] = gen.SubT(gen.VarT("lm"), gen.NumT(0))
						case "mapval":
							binds = append(binds, real.Binding{Name: "mm", V: ref.MapV(gen.Str, mb.T, ref.StrV("k"), mb)})
							args[pos] = gen.SubT(gen.VarT("mm"), gen.StrT("k"))
						}
						env := real.EnvSpec{Rep: "raw", Binds: binds}
						emit(progCase("optional-arg-"+how, callTerm(s.Name, args...), env, fmtEnv(env)))
					}
				}
			}
		})
	}
	// (b) direct uses
	for _, present := range []bool{true, false} {
		mk := func(v *ref.V) *ref.V {
			if present {
				return ref.JustV(v)
			}
			return ref.NothingV(v.T)
		}
		env := real.EnvSpec{Rep: "raw", Binds: []real.Binding{
			{Name: "mn", V: mk(ref.NumV(4))}, {Name: "ms", V: mk(ref.StrV("s"))}, {Name: "mbo", V: mk(ref.BoolV(true))},
			{Name: "mo", V: mk(oab(1, "x"))}, {Name: "ml", V: mk(ref.ListV(gen.Num, nums(1, 2)...))}, {Name: "mm", V: mk(ref.MapV(gen.Str, gen.Num, ref.StrV("k"), ref.NumV(1)))},
			{Name: "mmn", V: mk(mk(ref.NumV(4)))}, {Name: "o", V: oab(9, "d")}, {Name: "n", V: ref.NumV(7)},
			// optionals nested one level inside containers, next to the same containers of plain values
			{Name: "mpo", V: ref.MapV(gen.Str, gen.Maybe(gen.Num), ref.StrV("a"), mk(ref.NumV(4)))}, {Name: "mpn", V: ref.MapV(gen.Str, gen.Num, ref.StrV("a"), ref.NumV(4))},
			{Name: "lo", V: ref.ListV(gen.Maybe(gen.Num), mk(ref.NumV(4)))}, {Name: "ln", V: ref.ListV(gen.Num, ref.NumV(4))},
			{Name: "oo", V: ref.ObjV([]string{"a"}, mk(ref.NumV(4)))}, {Name: "on", V: ref.ObjV([]string{"a"}, ref.NumV(4))},
		}}
		v := gen.VarT
		get := func(a ...*gen.Term) *gen.Term { return gen.CallT("get", a...) }
		progs := []*gen.Term{
			gen.MemT(v("mo"), "a"), gen.SubT(v("ml"), gen.NumT(0)), gen.SubT(v("mm"), gen.StrT("k")), gen.Prefix("-", v("mn")), gen.Infix("+", v("mn"), gen.NumT(1)),
			gen.Infix("+", gen.NumT(1), v("mn")), gen.Infix("+", v("ms"), gen.StrT("x")), gen.CallT("if", v("mbo"), gen.NumT(1), gen.NumT(2)), gen.Ternary(v("mbo"), gen.NumT(1), gen.NumT(2)),
			gen.Prefix("!", v("mbo")), gen.Infix("&&", v("mbo"), gen.BoolT(true)), gen.Infix("==", v("mn"), v("mn")), gen.Infix("==", v("mn"), gen.NumT(4)), gen.Infix("<", v("mn"), gen.NumT(5)),
			gen.CallT("len", v("ml")), gen.CallT("len", v("ms")), gen.CallT("max", v("ml")), gen.CallT("abs", v("mn")), gen.CallT("string", v("mn")), gen.CallT("print", v("mo")),
			gen.CallT("isset", v("mm"), gen.StrT("k")), gen.CallT("union", v("ml"), v("ml")), gen.ListT(v("mn"), gen.NumT(1)), gen.ListT(v("mn"), v("mn")), gen.MapT(v("mn"), gen.NumT(1)),
			get(v("mn"), gen.NumT(0)), get(v("mn"), v("n")), get(v("ms"), gen.StrT("d")), get(v("mo"), v("o")), gen.MemT(get(v("mo"), v("o")), "a"), gen.SubT(get(v("ml"), gen.ListT(gen.NumT(5))), gen.NumT(0)),
			get(v("mn"), gen.StrT("wrong")), get(v("mn"), v("mn")), get(v("mmn"), v("mn")), get(get(v("mmn"), v("mn")), gen.NumT(0)), get(v("mmn"), gen.NumT(0)),
			get(v("n"), gen.NumT(0)), get(v("ml"), gen.NumT(0), gen.NumT(1)), gen.Infix("+", get(v("mn"), gen.NumT(0)), get(v("mn"), gen.NumT(1))), gen.CallT("if", gen.BoolT(true), v("mn"), v("mn")),
			gen.CallT("if", gen.BoolT(true), v("mn"), gen.NumT(1)), get(gen.CallT("if", gen.BoolT(false), v("mn"), v("mn")), gen.NumT(3)),
		}
		// an optional used as the INDEX / key of a plain container
		progs = append(progs, gen.SubT(v("mpn"), v("ms")), gen.SubT(v("ln"), v("mn")), gen.CallT("isset", v("mpn"), v("ms")), get(v("mpn"), v("ms"), gen.NumT(0)),
			get(v("ln"), v("mn"), gen.NumT(0)), gen.Infix("+", gen.SubT(v("mpn"), get(v("ms"), gen.StrT("a"))), gen.NumT(1)), gen.SubT(gen.MapT(gen.StrT("a"), gen.NumT(1)), v("ms")),
			gen.SubT(gen.MapT(v("ms"), gen.NumT(1)), gen.StrT("a")), gen.Method("isset", v("mpn"), v("ms")))
		// a container of optionals must never be taken for the same container of plain values
		for _, pr := range [][2]string{{"mpo", "mpn"}, {"lo", "ln"}, {"oo", "on"}} {
			use := func(t *gen.Term) *gen.Term {
				switch pr[0] {
				case "mpo":
					t = gen.SubT(t, gen.StrT("a"))
				case "lo":
					t = gen.SubT(t, gen.NumT(0))
				default:
					t = gen.MemT(t, "a")
				}
				return gen.Infix("+", t, gen.NumT(1))
			}
			for _, xy := range [][2]string{{pr[0], pr[1]}, {pr[1], pr[0]}, {pr[0], pr[0]}, {pr[1], pr[1]}} {
				x, y := v(xy[0]), v(xy[1])
				progs = append(progs, use(gen.CallT("if", gen.BoolT(false), x, y)), use(gen.SubT(gen.ListT(x, y), gen.NumT(1))), use(get(gen.ListT(x), gen.NumT(3), y)),
					gen.Infix("==", x, y), use(gen.SubT(gen.MapT(gen.StrT("p"), x, gen.StrT("q"), y), gen.StrT("q"))), gen.CallT("union", gen.ListT(x), gen.ListT(y)))
			}
		}
		// every kind of optional (present and absent) where a bare type variable takes it and the value is
		// rendered / hashed: set functions, string(), list equality, map keys — the absence must not fail
		for _, m := range []string{"mn", "ms", "mbo", "mo", "ml", "mm", "mmn"} {
			l := gen.ListT(v(m))
			progs = append(progs, gen.CallT("len", gen.CallT("union", l, l)), gen.CallT("len", gen.CallT("intersect", l, l)), gen.CallT("len", gen.CallT("diff", l, l)),
				gen.CallT("union", l, gen.ListT(v(m), v(m))), gen.Infix("==", gen.CallT("string", v(m)), gen.CallT("string", v(m))), gen.Infix("==", gen.CallT("string", l), gen.CallT("string", l)),
				gen.Infix("==", l, l), gen.CallT("len", gen.MapT(v(m), gen.NumT(1))))
		}
		for _, p := range progs {
			emit(progCase("direct-use", p, env, fmt.Sprintf("present=%v", present)))
		}
	}
	c16ContainerCases(emit)
	// (c) programs over host structs with nil / non-nil pointer, slice and map fields
	for variant := 0; variant < 16 && ok; variant++ {
		env := hostNilEnv(variant)
		g := hostNilGrammar(env)
		for _, ty := range []*gen.Ty{gen.Num, gen.Str, gen.Bool} {
			g.Each(ty, 1, func(t *gen.Term) bool {
				emit(progCase("host-nil", t, env, fmt.Sprintf("v%d", variant)))
				return ok
			})
			g.EachOneDeep(ty, func(t *gen.Term) bool {
				emit(progCase("host-nil", t, env, fmt.Sprintf("v%d", variant)))
				return ok
			})
			// the same struct declared with blanks / mixed case inside its tags (depth <= 1)
			if variant == 0 || variant == 5 || variant == 10 || variant == 15 {
				g.Each(ty, 1, func(t *gen.Term) bool {
					emit(progCase("host-nil-padded-tags", t, env, fmt.Sprintf("v%d", variant)))
					return ok
				})
			}
		}
	}
}

// hostNilEnv: a host struct { p *num; pt *num `,maybe`; l []num; lt []num `,maybe`; m map[str]num;
// o *obj `,maybe`; n num }, whose nil-able fields are nil or not according to the variant bits.
func hostNilEnv(variant int) real.EnvSpec {
	bit := func(i int) bool { return variant&(1<<i) != 0 }
	opt := func(present bool, v *ref.V) *ref.V {
		if present {
			return ref.JustV(v)
		}
		return ref.NothingV(v.T)
	}
	ln := ref.ListV(gen.Num, nums(1, 2)...)
	mv := ref.MapV(gen.Str, gen.Num, ref.StrV("k"), ref.NumV(3))
	binds := []real.Binding{{Name: "n", V: ref.NumV(5)}, {Name: "s", V: ref.StrV("s")}}
	// declared optional: always maybe[T]
	binds = append(binds, real.Binding{Name: "pt", V: opt(bit(0), ref.NumV(8))})
	binds = append(binds, real.Binding{Name: "ot", V: opt(bit(1), oab(1, "x"))})
	// undeclared pointer / slice / map: plain T when present, an absent optional when nil
	if bit(2) {
		binds = append(binds, real.Binding{Name: "p", V: ref.NumV(6)})
	} else {
		binds = append(binds, real.Binding{Name: "p", V: ref.NothingV(gen.Num)})
	}
	if bit(3) {
		binds = append(binds, real.Binding{Name: "l", V: ln}, real.Binding{Name: "m", V: mv})
	} else {
		binds = append(binds, real.Binding{Name: "l", V: ref.NothingV(tyLNum)}, real.Binding{Name: "m", V: ref.NothingV(tyMSN)})
	}
	return real.EnvSpec{Rep: "struct", Binds: binds}
}

func hostNilGrammar(env real.EnvSpec) *gen.Grammar {
	g := gen.NewGrammar()
	N, S, B := gen.Num, gen.Str, gen.Bool
	g.Atom(N, gen.NumT(0), gen.NumT(1))
	g.Atom(S, gen.StrT("k"))
	g.Atom(B, gen.BoolT(true))
	g.Atom(tyOAB, gen.ObjT([]string{"a", "b"}, gen.NumT(2), gen.StrT("d")))
	g.Atom(tyLNum, gen.ListT(gen.NumT(9)))
	g.Atom(tyMSN, gen.MapT(gen.StrT("z"), gen.NumT(0)))
	for _, b := range env.Binds {
		g.Atom(b.V.T, gen.VarT(b.Name))
	}
	for _, t := range []*gen.Ty{N, tyOAB, tyLNum, tyMSN} {
		fn(g, "get", t, gen.Maybe(t), t)
	}
	bin(g, "+", N, N, N)
	bin(g, "+", S, S, S)
	bin(g, "==", N, N, B)
	fn(g, "len", N, tyLNum)
	fn(g, "len", N, tyMSN)
	fn(g, "max", N, tyLNum)
	fn(g, "get", N, tyLNum, N, N)
	fn(g, "get", N, tyMSN, S, N)
	fn(g, "isset", B, tyMSN, S)
	fn(g, "if", N, B, N, N)
	fn(g, "string", S, N)
	fn(g, "string", S, gen.Maybe(N))
	fn(g, "string", S, gen.Maybe(tyOAB))
	g.Prod("mem-a", N, []*gen.Ty{tyOAB}, func(x []*gen.Term) *gen.Term { return gen.MemT(x[0], "a") })
	g.Prod("mem-b", S, []*gen.Ty{tyOAB}, func(x []*gen.Term) *gen.Term { return gen.MemT(x[0], "b") })
	return g
}

func (c16) Run(c *engine.Case) *engine.Result {
	if len(c.Args) > 0 && c.Args[0] == "container" {
		return runC16Container(c)
	}
	if len(c.Args) > 0 && c.Args[0] == "hist" {
		r := c07History(c)
		for i := range r.Violations {
			if r.Violations[i].Class == "runs-on-mismatching-env" {
				r.Violations[i].Class = "optional-consumed-without-default"
			}
		}
		return r
	}
	d := loadProg(c)
	h := real.StdHost()
	real.PadTags = c.Family == "host-nil-padded-tags"
	p := observe(d.Term, d.Env, h, real.Backends, true)
	real.PadTags = false
	res := &engine.Result{Execs: p.Execs, NonTrivial: true}
	res.Outcome = fmt.Sprintf("ref=%s %s", p.refOutcomeType(), p.outcomeSummary())
	rename := map[string]string{
		"accepts-ill-typed":       "optional-consumed-without-default",
		"rejects-well-typed":      "rejects-legal-use-of-optional",
		"compile-accept-mismatch": "optional-acceptance-mismatch",
		"inferred-type-mismatch":  "optional-type-mismatch",
		"unexpected-failure":      "absence-fails-at-run-time",
		"internal-fault":          "absence-fails-at-run-time",
		"value-mismatch":          "get-wrong-result",
		"type-error-at-run-time":  "absence-fails-at-run-time",
	}
	var all []engine.Violation
	all = append(all, p.judgeAcceptance()...)
	all = append(all, p.judgeProgress()...)
	all = append(all, p.judgeValues()...)
	for _, v := range all {
		if n, ok := rename[v.Class]; ok {
			v.Class = n
		}
		res.Violations = append(res.Violations, v)
	}
	return res
}
