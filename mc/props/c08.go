package props

import (
	"fmt"
	"strconv"
	"strings"

	"github.com/goghcrow/yae/parser/oper"

	"verif/mc/engine"
	"verif/mc/real"
	"verif/mc/ref"
)

// C08 — parsing honours precedence, associativity and fixity for any operator table.
type c08 struct{}

func init() { engine.Register(c08{}) }

func (c08) ID() string { return "C08" }

func (c08) Meta(tier string) engine.Meta {
	return engine.Meta{
		Level: "model_checking",
		Rule: "operator tables: two infix symbols (+ *) × {left, right, non-assoc} × binding power {3, 3.5, 4}, one prefix (~) and one postfix (!) symbol (quick: 81 tables with fixed prefix / postfix powers 3.75 / 3.25; thorough: prefix ∈ {3.25,3.75,10} × postfix ∈ {3.25,3.75,11} = 729 tables), the same 81 shapes at three other magnitudes of binding power (33…1000, 10^6…3·10^7, 0.0001…0.5), plus the built-in table, a table of identifier-like operators, three declaration orders of a table whose symbols are prefixes of one another (< <= << * **), 45 tables whose powers lie around the grammar's own call / member powers (11.5 … 13.5), and a literal-forms table. For every table ALL token sequences up to the length bound over the family's alphabet are lexed and parsed by the real lexer + parser and by the reference (hand-written scanner + shunting-yard operator-precedence parser): accept / reject must agree, the trees must be identical, and every node's recorded span (rune range, line, column) must equal the span of the tokens it was built from; one family separates tokens by newlines so that lines and columns vary; for every ninth table one parser OBJECT additionally parses all sequences of a case (accepted and rejected interleaved) and must agree with a fresh parser. A case is (family, table, first tokens); its run enumerates every suffix. non-trivial = every case (thousands of sequences each)",
		Bound: "sequences: full alphabet (13 symbols) length <= 5; operator-only, ternary and parenthesis alphabets (5 symbols) length <= 7 (thorough 9); built-in comparison / parenthesis alphabet and conditional-inside-list/map-literal alphabet {a ? : [ ] , +} (7 symbols each) length <= 7; built-in table (15 symbols) length <= 5; literal forms (9 symbols) length <= 6 (thorough 7)",
		Assumptions: []string{"precedence semantics: an operator binds an operand while its left power exceeds the right power of what is open to its left; right-associative operators and ?: use the largest power below their own on the right; punctuation, call '(' 12, member '.' and subscript '[' 13, '?' 2 are fixed forms (parser/factory.go)"},
	}
}

type c08Family struct {
	name     string
	alphabet []string
	tables   func(tier string) [][]ref.Op
	prefix   int // tokens fixed by the case
	suffix   func(tier string) int
	sep      string
}

func abTables(tier string) [][]ref.Op {
	var out [][]ref.Op
	fix := []string{"infixl", "infixr", "infixn"}
	bps := []float64{3, 3.5, 4}
	pres, posts := []float64{3.75}, []float64{3.25}
	if tier == "thorough" {
		pres, posts = []float64{3.25, 3.75, 10}, []float64{3.25, 3.75, 11}
	}
	for _, f1 := range fix {
		for _, b1 := range bps {
			for _, f2 := range fix {
				for _, b2 := range bps {
					for _, pp := range pres {
						for _, qq := range posts {
							out = append(out, []ref.Op{{Sym: "+", BP: b1, Fixity: f1}, {Sym: "*", BP: b2, Fixity: f2}, {Sym: "~", BP: pp, Fixity: "prefix"}, {Sym: "!", BP: qq, Fixity: "postfix"}})
						}
					}
				}
			}
		}
	}
	return out
}

// scaledTables: the same declaration shapes at other magnitudes of binding power (large powers,
// where a float32 step is coarse, and powers below 1).
func scaledTables(bps []float64, pre, post float64) func(string) [][]ref.Op {
	return func(string) [][]ref.Op {
		var out [][]ref.Op
		fix := []string{"infixl", "infixr", "infixn"}
		for _, f1 := range fix {
			for _, b1 := range bps {
				for _, f2 := range fix {
					for _, b2 := range bps {
						out = append(out, []ref.Op{{Sym: "+", BP: b1, Fixity: f1}, {Sym: "*", BP: b2, Fixity: f2}, {Sym: "~", BP: pre, Fixity: "prefix"}, {Sym: "!", BP: post, Fixity: "postfix"}})
					}
				}
			}
		}
		return out
	}
}

func oneTable(ops []ref.Op) func(string) [][]ref.Op {
	return func(string) [][]ref.Op { return [][]ref.Op{ops} }
}

// overlapTables: symbols that are prefixes of one another, declared short-first, long-first and
// interleaved (the registration must order them so that the longest symbol is tried first).
func overlapTables(string) [][]ref.Op {
	ops := []ref.Op{{Sym: "<", BP: 5, Fixity: "infixn"}, {Sym: "+", BP: 7, Fixity: "infixl"}, {Sym: "<=", BP: 5, Fixity: "infixn"},
		{Sym: "<<", BP: 6, Fixity: "infixl"}, {Sym: "*", BP: 8, Fixity: "infixl"}, {Sym: "**", BP: 9, Fixity: "infixr"}}
	long := []ref.Op{ops[2], ops[3], ops[5], ops[0], ops[1], ops[4]}
	mixed := []ref.Op{ops[4], ops[3], ops[0], ops[5], ops[1], ops[2]}
	return [][]ref.Op{ops, long, mixed}
}

// neighbourTables: user operators whose binding power lies around the grammar's own call (12) and
// member / subscript (13) powers.
func neighbourTables(string) [][]ref.Op {
	var out [][]ref.Op
	for _, f := range []string{"infixl", "infixr", "infixn"} {
		for _, bp := range []float64{11.5, 12, 12.5, 13, 13.5} {
			for _, pre := range []float64{12, 12.5, 13.5} {
				out = append(out, []ref.Op{{Sym: "+", BP: bp, Fixity: f}, {Sym: "~", BP: pre, Fixity: "prefix"}, {Sym: "!", BP: 12.5, Fixity: "postfix"}})
			}
		}
	}
	return out
}

// seqTables: the 13-symbol family is mostly about punctuation; quick takes every third table
// (27, all nine fixity pairs at three power pairs), thorough all 81.
func seqTables(tier string) [][]ref.Op {
	all := abTables("quick")
	if tier == "thorough" {
		return all
	}
	var out [][]ref.Op
	for i, t := range all {
		if i%3 == 0 {
			out = append(out, t)
		}
	}
	return out
}

// parenTables: parentheses interact with associativity only where an operator is non-associative
// (quick: the 45 tables with at least one non-associative symbol; thorough: all 81).
func parenTables(tier string) [][]ref.Op {
	all := abTables("quick")
	if tier == "thorough" {
		return all
	}
	var out [][]ref.Op
	for _, t := range all {
		for _, o := range t {
			if o.Fixity == "infixn" {
				out = append(out, t)
				break
			}
		}
	}
	return out
}

func c08Families() []c08Family {
	lenOps := func(tier string) int {
		if tier == "thorough" {
			return 6
		}
		return 4
	}
	return []c08Family{
		{"seq", []string{"a", "+", "*", "~", "!", "(", ")", "?", ":", ".", "[", "]", ","}, seqTables, 2, func(string) int { return 3 }, " "},
		{"ops", []string{"a", "+", "*", "~", "!"}, abTables, 3, lenOps, " "},
		{"tern", []string{"a", "+", "*", "?", ":"}, abTables, 3, lenOps, " "},
		{"paren", []string{"a", "+", "*", "(", ")"}, parenTables, 3, lenOps, " "},
		{"builtin-paren", []string{"a", "1", "==", "<", "+", "(", ")"}, func(string) [][]ref.Op { return [][]ref.Op{real.BuiltInOps()} }, 2, func(string) int { return 5 }, " "},
		{"ops-big", []string{"a", "+", "*", "~", "!"}, scaledTables([]float64{33, 40.5, 1000}, 36, 34), 3, func(string) int { return 3 }, " "},
		{"ops-huge", []string{"a", "+", "*", "~", "!"}, scaledTables([]float64{1e6, 1e6 + 0.5, 3e7}, 2e6, 5e5), 3, func(string) int { return 3 }, " "},
		{"ops-small", []string{"a", "+", "*", "~", "!"}, scaledTables([]float64{0.25, 0.5, 0.0001}, 0.3, 0.2), 3, func(string) int { return 3 }, " "},
		{"lines", []string{"a", "+", "*", "~", "!", "(", ")", "?", ":", ".", "[", "]", ","}, func(t string) [][]ref.Op { return abTables("quick")[:9] }, 2, func(string) int { return 3 }, "\n  "},
		{"builtin", []string{"a", "1", "+", "-", "*", "^", "<", "==", "&&", "!", "not", "?", ":", "(", ")"}, func(string) [][]ref.Op { return [][]ref.Op{real.BuiltInOps()} }, 2, func(string) int { return 3 }, " "},
		{"overlap", []string{"a", "<", "<=", "<<", "*", "**", "+", "(", ")"}, overlapTables, 2, func(string) int { return 3 }, " "},
		{"neighbours", []string{"a", "+", "~", "!", ".", "[", "]", "(", ")"}, neighbourTables, 2, func(string) int { return 3 }, " "},
		{"identop", []string{"a", "in", "not", "+", "(", ")", "ina", "not_a", "in_", "_in"}, oneTable([]ref.Op{{Sym: "in", BP: 3.5, Fixity: "infixn"}, {Sym: "not", BP: 3.75, Fixity: "prefix"}, {Sym: "+", BP: 4, Fixity: "infixl"}}), 2, func(string) int { return 4 }, " "},
		{"nonascii-op", []string{"a", "ˆ", "+ˆ", "+", "(", ")", "é"}, oneTable([]ref.Op{{Sym: "ˆ", BP: 9, Fixity: "infixr"}, {Sym: "+ˆ", BP: 7.5, Fixity: "infixn"}, {Sym: "+", BP: 7, Fixity: "infixl"}, {Sym: "é", BP: 10, Fixity: "prefix"}}), 2, func(string) int { return 4 }, " "},
		{"tern-lit", []string{"a", "?", ":", "[", "]", ",", "+"}, func(string) [][]ref.Op { return [][]ref.Op{real.BuiltInOps()} }, 2, func(string) int { return 5 }, " "},
		{"literals", []string{"a", "[", "]", "{", "}", ":", ",", "(", ")"}, oneTable(nil), 2, func(t string) int {
			if t == "thorough" {
				return 5
			}
			return 4
		}, " "},
	}
}

func (c08) Generate(tier string, yield func(*engine.Case) bool) {
	// the small families (few tables) first: a deadline on a loaded machine must not cut them
	fams := c08Families()
	var order []int
	for pass := 0; pass < 2; pass++ {
		for fi, f := range fams {
			if (len(f.tables(tier)) <= 3) == (pass == 0) {
				order = append(order, fi)
			}
		}
	}
	for _, fi := range order {
		f := fams[fi]
		tabs := f.tables(tier)
		for ti := range tabs {
			// short sequences (shorter than the fixed prefix)
			if !yield(&engine.Case{Family: "parse-" + f.name, Key: fmt.Sprintf("t%d|short", ti), Args: []string{strconv.Itoa(fi), strconv.Itoa(ti), "short"}}) {
				return
			}
			var rec func(pre []string) bool
			rec = func(pre []string) bool {
				if len(pre) == f.prefix {
					args := append([]string{strconv.Itoa(fi), strconv.Itoa(ti)}, pre...)
					return yield(&engine.Case{Family: "parse-" + f.name, Key: fmt.Sprintf("t%d|%s", ti, strings.Join(pre, " ")), Src: strings.Join(pre, " "), Args: args})
				}
				for _, a := range f.alphabet {
					if !rec(append(append([]string(nil), pre...), a)) {
						return false
					}
				}
				return true
			}
			if !rec(nil) {
				return
			}
		}
	}
}

func tableStr(ops []ref.Op) string {
	xs := make([]string, len(ops))
	for i, o := range ops {
		xs[i] = fmt.Sprintf("%s:%s:%v", o.Sym, o.Fixity, o.BP)
	}
	return strings.Join(xs, " ")
}

func (c08) Run(c *engine.Case) *engine.Result {
	fi, _ := strconv.Atoi(c.Args[0])
	ti, _ := strconv.Atoi(c.Args[1])
	f := c08Families()[fi]
	tier := engine.CurrentTier
	ops := f.tables(tier)[ti]
	rops := real.ToOps(ops)
	lx := real.NewLexer(rops)
	res := &engine.Result{NonTrivial: true}
	outcomes := map[string]int{}
	// every ninth table (and every single-table family): ONE parser object also parses every
	// sequence of the case, accepted and rejected ones interleaved, and must agree with a fresh one
	var shared real.Parser
	if ti%9 == 0 {
		shared = real.NewParser(rops)
	}
	check := func(toks []string) {
		s := strings.Join(toks, f.sep)
		res.Execs++
		res.States++
		engine.HeartbeatCheap()
		vs, oc := judgeParse(s, ops, rops, lx)
		if shared != nil && len(vs) == 0 {
			if lr := lx.Lex(s); lr.Err == "" {
				fresh := real.ParseToks(rops, lr.Toks)
				again := real.ParseWith(shared, lr.Toks)
				res.Execs++
				fs, as := "reject", "reject"
				if fresh.Err == "" {
					n := real.ToNode(fresh.Tree)
					fs = n.String() + "|" + strings.Join(n.Spans(), ",")
				}
				if again.Err == "" {
					n := real.ToNode(again.Tree)
					as = n.String() + "|" + strings.Join(n.Spans(), ",")
				}
				if fs != as {
					vs = append(vs, vf("parser-reuse-changes-result", "%q under {%s}: a parser object that has parsed other inputs before gives %s, a fresh one %s", s, tableStr(ops), trunc200(as), trunc200(fs)))
				}
			}
		}
		outcomes[oc]++
		if len(vs) > 0 && len(res.Violations) < 6 {
			res.Violations = append(res.Violations, vs...)
		}
	}
	if c.Args[2] == "short" {
		var rec func(pre []string)
		rec = func(pre []string) {
			check(pre)
			if len(pre) == f.prefix-1 {
				return
			}
			for _, a := range f.alphabet {
				rec(append(append([]string(nil), pre...), a))
			}
		}
		rec(nil)
	} else {
		pre := c.Args[2:]
		var rec func(cur []string, d int)
		rec = func(cur []string, d int) {
			check(cur)
			if d == 0 {
				return
			}
			for _, a := range f.alphabet {
				rec(append(append([]string(nil), cur...), a), d-1)
			}
		}
		rec(pre, f.suffix(tier))
	}
	res.Outcome = fmt.Sprintf("%s %v", tableStr(ops), outcomes)
	return res
}

// judgeParse lexes and parses one string with the real code and with the reference.
func judgeParse(s string, ops []ref.Op, rops []oper.Operator, lx *real.Lexer) (vs []engine.Violation, outcome string) {
	rtoks, rlerr := ref.Lex(s, ops)
	var want *ref.Node
	var werr error
	if rlerr != nil {
		werr = rlerr
	} else if n, perr := ref.Parse(rtoks, ops); perr != nil {
		werr = perr
	} else {
		want = n
	}
	var got *ref.Node
	gerr := ""
	lr := lx.Lex(s)
	if lr.Err != "" {
		gerr = lr.Err
	} else {
		pr := real.ParseToks(rops, lr.Toks)
		if pr.Err != "" {
			gerr = pr.Err
		} else {
			got = real.ToNode(pr.Tree)
		}
	}
	tab := tableStr(ops)
	switch {
	case gerr != "" && werr != nil:
		return nil, "reject"
	case gerr == "" && werr != nil:
		cls := "accepts-malformed"
		if strings.Contains(werr.Error(), "non-associative") {
			cls = "accepts-nonassoc-chain"
		}
		return []engine.Violation{vf(cls, "%q under {%s}: parsed as %s, but the declarations reject it: %v", s, tab, got, werr)}, "accept!"
	case gerr != "" && werr == nil:
		return []engine.Violation{vf("rejects-wellformed", "%q under {%s}: rejected (%s), the declarations dictate %s", s, tab, stable(gerr), want)}, "reject!"
	}
	if got.String() != want.String() {
		return []engine.Violation{vf("tree-mismatch", "%q under {%s}: parsed as %s, the declarations dictate %s", s, tab, got, want)}, "tree!"
	}
	gs, ws := got.Spans(), want.Spans()
	for i := range ws {
		if i >= len(gs) || gs[i] != ws[i] {
			g := "<missing>"
			if i < len(gs) {
				g = gs[i]
			}
			return []engine.Violation{vf("span-mismatch", "%q under {%s}: node %d of %s records %s, its text spans %s", s, tab, i, want, g, ws[i])}, "span!"
		}
	}
	return nil, "accept"
}
