package props

import (
	"encoding/json"
	"fmt"
	"sort"
	"strings"

	"github.com/goghcrow/yae/parser/oper"

	"verif/mc/engine"
	"verif/mc/gen"
	"verif/mc/real"
	"verif/mc/ref"
)

// progData is the payload of a program case.
type progData struct {
	Term    *gen.Term     `json:"term"`
	Env     real.EnvSpec  `json:"env"`
	CallEnv *real.EnvSpec `json:"call_env,omitempty"` // run-time environment when it differs from the compile-time one
}

func progCase(family string, t *gen.Term, env real.EnvSpec, envTag string) *engine.Case {
	src := t.Render()
	return &engine.Case{Family: family, Key: envTag + "|" + src, Src: src, Lazy: func() json.RawMessage {
		b, err := json.Marshal(progData{Term: t, Env: env})
		if err != nil {
			panic("harness: case not serialisable: " + err.Error())
		}
		return b
	}}
}

func loadProg(c *engine.Case) progData {
	var d progData
	if err := json.Unmarshal(c.Data, &d); err != nil {
		panic(err)
	}
	return d
}

// keyword operators exercised with user-registered functions
var kwOps []oper.Operator // and / or / not are already in the built-in operator table

// BackendObs: one back end's observation, with the result converted to a reference value.
type BackendObs struct {
	Obs    *real.Obs
	Val    *ref.V // converted result (nil when none or ill-formed)
	ValErr error  // ill-formedness found while reading the result
}

// Outcome text of one back end (used for cross-back-end comparison and outcome hashing).
func (b *BackendObs) Outcome() string {
	o := b.Obs
	switch {
	case o.Panic != "":
		return "PANIC@" + o.Stage + ": " + stable(o.Panic)
	case o.CompileErr != "":
		return "REJECT"
	case o.RunErr != "":
		return "FAIL(" + real.FailKind(o.RunErr) + ")"
	case b.ValErr != nil:
		return "ILLFORMED(" + b.ValErr.Error() + ")"
	case b.Val == nil:
		return "NO-VALUE"
	}
	return "VALUE " + b.Val.Describe() + " : " + b.Val.T.Canon()
}

// stable removes addresses and other run-dependent bits from messages.
func stable(s string) string {
	if i := strings.Index(s, "0x"); i >= 0 {
		s = s[:i] + "0x…"
	}
	if len(s) > 160 {
		s = s[:160]
	}
	return s
}

// ProgObs: everything observed about one program in one environment.
type ProgObs struct {
	Term *gen.Term
	Src  string
	Env  real.EnvSpec

	RefType   *gen.Ty
	RefErr    *ref.TypeErr
	RefVal    *ref.V
	RefFail   *ref.Fail
	RefTrace  []string
	RefUnspec bool

	RealType    *gen.Ty
	RealTypeErr string

	B     map[real.Backend]*BackendObs
	Execs int
}

// observe runs the reference and the real code (all requested back ends) on one program.
func observe(t *gen.Term, env real.EnvSpec, h *real.Host, backends []real.Backend, wantType bool) *ProgObs {
	return observe2(t, env, nil, h, backends, wantType)
}

// observe2: like observe, with a separate run-time environment (nil = the compile-time one).
func observe2(t *gen.Term, env real.EnvSpec, callEnv *real.EnvSpec, h *real.Host, backends []real.Backend, wantType bool) *ProgObs {
	p := &ProgObs{Term: t, Src: t.Render(), Env: env, B: map[real.Backend]*BackendObs{}}
	ck := ref.NewChecker(h.RefFuns(), env.Types())
	p.RefType, p.RefErr = ck.Check(t)
	runEnv := env
	if callEnv != nil {
		runEnv = *callEnv
	}
	if p.RefErr == nil {
		ev := ref.NewEval(ck.Res, runEnv.Values())
		p.RefVal, p.RefFail = ev.Run(t)
		p.RefTrace = ev.Trace
		p.RefUnspec = ev.Unspec
	}
	if wantType {
		p.RealType, p.RealTypeErr = real.InferType(h, p.Src, env)
		p.Execs++
	}
	for _, b := range backends {
		engine.Heartbeat()
		bo := &BackendObs{Obs: real.Run2(b, h, p.Src, env, runEnv)}
		p.Execs++
		if bo.Obs.Val != nil {
			bo.Val, bo.ValErr = real.FromVal(bo.Obs.Val)
		}
		p.B[b] = bo
	}
	return p
}

func (p *ProgObs) outcomeSummary() string {
	var xs []string
	for _, b := range real.Backends {
		if bo, ok := p.B[b]; ok {
			xs = append(xs, string(b)+"="+bo.Outcome())
		}
	}
	if p.RealTypeErr != "" {
		xs = append(xs, "type=REJECT")
	} else if p.RealType != nil {
		xs = append(xs, "type="+p.RealType.Canon())
	}
	sort.Strings(xs)
	return strings.Join(xs, " ; ")
}

// refOutcome describes what the reference predicts.
func (p *ProgObs) refOutcome() string {
	switch {
	case p.RefErr != nil:
		return "REJECT(" + p.RefErr.Msg + ")"
	case p.RefFail != nil:
		return "FAIL(" + p.RefFail.Kind + ")"
	}
	return "VALUE " + p.RefVal.Describe() + " : " + p.RefType.Canon()
}

func vf(class, f string, a ...interface{}) engine.Violation { return engine.V(class, f, a...) }

// ---- per-property judgements over one ProgObs -------------------------------------------------

// judgeValues (C04): every back end returns the value the reference defines.
func (p *ProgObs) judgeValues() (vs []engine.Violation) {
	if p.RefErr != nil || p.RefUnspec {
		return nil
	}
	for _, b := range real.Backends {
		bo := p.B[b]
		if bo == nil || bo.Obs.CompileErr != "" || bo.Obs.Panic != "" || bo.Obs.RunErr != "" || bo.ValErr != nil {
			continue // acceptance, totality, progress and preservation are judged by their own properties
		}
		if p.RefFail != nil {
			continue
		}
		if !ref.Same(p.RefVal, bo.Val) {
			vs = append(vs, vf("value-mismatch", "%s on %s: got %s, the semantics define %s", p.Src, b, bo.Val.Describe(), p.RefVal.Describe()))
		}
	}
	return
}

// judgeProgress (C02): value exactly when defined; failures only of the documented kind.
func (p *ProgObs) judgeProgress() (vs []engine.Violation) {
	if p.RefErr != nil {
		return nil
	}
	for _, b := range real.Backends {
		bo := p.B[b]
		if bo == nil || bo.Obs.CompileErr != "" {
			continue
		}
		o := bo.Obs
		if o.Panic != "" {
			continue // totality of the API boundary is C12's; here we look at what kind of stop it was
		}
		if b == real.VMCall && o.RunErr == "over exec limit" {
			continue // the call-threaded loop's instruction cap is judged (once) by C03
		}
		if o.RunErr != "" {
			kind := real.FailKind(o.RunErr)
			if kind == "internal" {
				vs = append(vs, vf("internal-fault", "%s on %s stopped with an internal fault: %s (reference: %s)", p.Src, b, stable(o.RunErr), p.refOutcome()))
				continue
			}
			if p.RefFail == nil {
				vs = append(vs, vf("unexpected-failure", "%s on %s failed (%s: %s) where the semantics define the value %s", p.Src, b, kind, stable(o.RunErr), p.RefVal.Describe()))
			} else if !p.RefFail.Unspecified && p.RefFail.Kind != kind {
				vs = append(vs, vf("wrong-failure-kind", "%s on %s failed with %s (%s), the undefined operation is %s", p.Src, b, kind, stable(o.RunErr), p.RefFail.Kind))
			}
			continue
		}
		if p.RefFail != nil && !p.RefFail.Unspecified {
			got := "<ill-formed>"
			if bo.Val != nil {
				got = bo.Val.Describe()
			}
			vs = append(vs, vf("missing-failure", "%s on %s returned %s where the operation is undefined (%s)", p.Src, b, got, p.RefFail))
		}
	}
	return
}

// judgePreservation (C01): the real inferred type, the dynamic type of the result and the types
// of all components agree, on every back end.
func (p *ProgObs) judgePreservation() (vs []engine.Violation) {
	if p.RealTypeErr != "" || p.RealType == nil {
		return nil
	}
	for _, b := range real.Backends {
		bo := p.B[b]
		if bo == nil || bo.Obs.Val == nil {
			continue
		}
		if bo.ValErr != nil {
			vs = append(vs, vf("value-illformed", "%s : %s on %s produced an ill-formed value: %v", p.Src, p.RealType, b, bo.ValErr))
			continue
		}
		if !gen.Equal(bo.Val.T, p.RealType) {
			vs = append(vs, vf("value-type-mismatch", "%s was inferred as %s but %s produced a value of type %s (%s)", p.Src, p.RealType, b, bo.Val.T, bo.Val.Describe()))
		}
	}
	return
}

// judgeBackends (C03): all back ends agree on outcome class, value and host-call trace.
func (p *ProgObs) judgeBackends() (vs []engine.Violation) {
	var base *BackendObs
	var baseB real.Backend
	for _, b := range real.Backends {
		bo := p.B[b]
		if bo == nil {
			continue
		}
		if bo.Obs.CompileErr != "" || (bo.Obs.Panic != "" && bo.Obs.Stage == "compile") {
			msg := bo.Obs.CompileErr + bo.Obs.Panic
			if (b == real.VMSwitch || b == real.VMCall) && msg == "overflow" {
				continue // the VM may refuse a program that exceeds its encoding capacity
			}
		}
		if b == real.VMCall && bo.Obs.RunErr == "over exec limit" {
			vs = append(vs, vf("callthread-exec-limit", "%s: the call-threaded loop stops after 1024 instructions", p.Src))
			continue
		}
		if base == nil {
			base, baseB = bo, b
			continue
		}
		if base.Outcome() != bo.Outcome() {
			cls := "backend-outcome-mismatch"
			if strings.HasPrefix(base.Outcome(), "VALUE") && strings.HasPrefix(bo.Outcome(), "VALUE") {
				cls = "backend-value-mismatch"
			}
			vs = append(vs, vf(cls, "%s: %s gives %s but %s gives %s", p.Src, baseB, base.Outcome(), b, bo.Outcome()))
			continue
		}
		if strings.Join(base.Obs.Trace, ";") != strings.Join(bo.Obs.Trace, ";") {
			vs = append(vs, vf("backend-trace-mismatch", "%s: host calls on %s = %v, on %s = %v", p.Src, baseB, base.Obs.Trace, b, bo.Obs.Trace))
		}
	}
	return
}

// judgeTrace (C06): host-function invocations equal the reference's, outcome class as predicted.
func (p *ProgObs) judgeTrace() (vs []engine.Violation) {
	if p.RefErr != nil || p.RefUnspec {
		return nil
	}
	want := strings.Join(p.RefTrace, ";")
	for _, b := range real.Backends {
		bo := p.B[b]
		if bo == nil {
			continue
		}
		if bo.Obs.CompileErr != "" || bo.Obs.Panic != "" {
			msg := bo.Obs.CompileErr + bo.Obs.Panic
			if !((b == real.VMSwitch || b == real.VMCall) && msg == "overflow") {
				vs = append(vs, vf("operand-evaluated-at-compile-time", "%s on %s: the well-typed program is refused or dies before / outside evaluation (%s); nothing may be evaluated before the expression runs", p.Src, b, stable(msg)))
			}
			continue
		}
		if b == real.VMCall && bo.Obs.RunErr == "over exec limit" {
			continue
		}
		got := strings.Join(bo.Obs.Trace, ";")
		if got != want {
			vs = append(vs, vf("trace-mismatch", "%s on %s: host calls %v, the evaluation order defines %v", p.Src, b, bo.Obs.Trace, p.RefTrace))
			continue
		}
		if p.RefFail == nil && bo.Obs.RunErr != "" {
			vs = append(vs, vf("lazy-operand-evaluated", "%s on %s failed (%s) although no selected operand fails", p.Src, b, stable(bo.Obs.RunErr)))
		}
		if p.RefFail != nil && !p.RefFail.Unspecified && bo.Obs.RunErr == "" {
			vs = append(vs, vf("selected-operand-skipped", "%s on %s returned a value although a selected operand fails (%s)", p.Src, b, p.RefFail))
		}
	}
	return
}

// judgeAcceptance (C05): accept / reject and inferred type as the typing rules say.
func (p *ProgObs) judgeAcceptance() (vs []engine.Violation) {
	realAccept := p.RealTypeErr == ""
	refAccept := p.RefErr == nil
	if realAccept != refAccept {
		if refAccept {
			vs = append(vs, vf("rejects-well-typed", "%s is well-typed (%s) but the checker rejects it: %s", p.Src, p.RefType, stable(p.RealTypeErr)))
		} else {
			vs = append(vs, vf("accepts-ill-typed", "%s is ill-typed (%s) but the checker accepts it with type %s", p.Src, p.RefErr.Msg, p.RealType))
		}
		return
	}
	if refAccept && !gen.Equal(p.RefType, p.RealType) {
		vs = append(vs, vf("inferred-type-mismatch", "%s: inferred %s, the rules assign %s", p.Src, p.RealType, p.RefType))
	}
	// Expr.Compile must agree with the checker
	for _, b := range real.Backends {
		bo := p.B[b]
		if bo == nil {
			continue
		}
		acc := bo.Obs.Accepted()
		if (b == real.VMSwitch || b == real.VMCall) && (bo.Obs.CompileErr == "overflow") {
			continue
		}
		if acc != refAccept {
			vs = append(vs, vf("compile-accept-mismatch", "%s: Compile on %s accepted=%v, well-typed=%v (%s%s)", p.Src, b, acc, refAccept, stable(bo.Obs.CompileErr), stable(bo.Obs.Panic)))
		}
		if acc && bo.Obs.RunErr != "" && strings.Contains(bo.Obs.RunErr, "type mismatched") {
			vs = append(vs, vf("type-error-at-run-time", "%s on %s: %s", p.Src, b, stable(bo.Obs.RunErr)))
		}
	}
	return
}

func fmtEnv(e real.EnvSpec) string {
	var xs []string
	for _, b := range e.Binds {
		xs = append(xs, fmt.Sprintf("%s=%s", b.Name, b.V.Describe()))
	}
	return e.Rep + "{" + strings.Join(xs, ",") + "}"
}
