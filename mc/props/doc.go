// Package props: one driver per property (alphabet + bound + oracle); each file registers itself.
package props
