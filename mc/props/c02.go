package props

import (
	"fmt"
	"math"
	"strings"

	"verif/mc/engine"
	"verif/mc/gen"
	"verif/mc/real"
	"verif/mc/ref"
)

// C02 — progress: accepted programs fail only through documented partial operations.
type c02 struct{}

func init() { engine.Register(c02{}) }

func (c02) ID() string { return "C02" }

func (c02) Meta(tier string) engine.Meta {
	return engine.Meta{
		Level: "model_checking",
		Rule: "type-directed enumeration over the partial-operation alphabet: list subscripts and get() with indices {-1,-0.5,0,0.5,1,2,len,2^53,1e300,NaN,±Inf,0/0,1/0}, map subscripts / get / isset with present and absent keys of str and num key types, % with divisors {0,0.5,-0.5,-1,3,2^63}, match with valid / invalid patterns, get(optional), empty containers, method-syntax calls with sugared arguments, && / || / ?: guards around undefined operations (also 11 hand-built three-level guard idioms); all programs up to the depth bound; plus size families (lists / nested sums / nested conditionals with 43…3000 live stack slots or constants, 256…70000 constants). Oracle: the reference evaluator predicts value or failure kind; the real outcome must be a value exactly when defined and a failure only of the documented kind; get() never fails. non-trivial = the program contains a partial operation",
		Bound: "quick: depth 1 in full + depth 2 with one nested operand over the 6 core atoms; thorough: depth 1 in full, depth 2 with one nested operand over all boundary atoms, ALL of depth 2 over the 6 core atoms; size families are linear sweeps",
		Assumptions: []string{"index / modulo truncation toward zero is specified only inside the int64 range; beyond it (and for NaN / ±Inf indices) the oracle demands only 'a documented failure or a value', never an internal fault"},
	}
}

func partialEnv() real.EnvSpec {
	return real.EnvSpec{Rep: "raw", Binds: []real.Binding{
		{Name: "l", V: ref.ListV(gen.Num, nums(1, 2)...)},
		{Name: "le", V: ref.ListV(gen.Num)},
		{Name: "m", V: ref.MapV(gen.Str, gen.Num, ref.StrV("a"), ref.NumV(1))},
		{Name: "me", V: ref.MapV(gen.Str, gen.Num)},
		{Name: "mn", V: ref.MapV(gen.Num, gen.Str, ref.NumV(1), ref.StrV("x"), ref.NumV(0.5), ref.StrV("y"))},
		{Name: "nan", V: ref.NumV(math.NaN())},
		{Name: "inf", V: ref.NumV(math.Inf(1))},
		{Name: "ninf", V: ref.NumV(math.Inf(-1))},
		{Name: "mb", V: ref.JustV(ref.NumV(4))},
		{Name: "mz", V: ref.NothingV(gen.Num)},
	}}
}

func partialGrammar(full bool) *gen.Grammar {
	g := gen.NewGrammar()
	N, S, B := gen.Num, gen.Str, gen.Bool
	g.Atom(N, gen.NumT(0), gen.NumT(1), gen.NumT(2), gen.NumT(0.5), gen.Neg(1), gen.VarT("nan"))
	if full {
		g.Atom(N, gen.Neg(0.5), gen.NumT(3), gen.NumT(gen.Pow53), gen.NumT(gen.Pow63), gen.NumT(1e300), gen.VarT("inf"), gen.VarT("ninf"))
	}
	g.Atom(S, gen.StrT("a"), gen.StrT("zz"), gen.StrT("("))
	g.Atom(B, gen.BoolT(true), gen.BoolT(false))
	g.Atom(tyLNum, gen.VarT("l"), gen.VarT("le"), gen.ListT(gen.NumT(5), gen.NumT(6), gen.NumT(7)))
	g.Atom(tyMSN, gen.VarT("m"), gen.VarT("me"))
	g.Atom(tyMNS, gen.VarT("mn"))
	g.Atom(tyMbNum, gen.VarT("mb"), gen.VarT("mz"))
	g.Prod("sub-l", N, []*gen.Ty{tyLNum, N}, func(x []*gen.Term) *gen.Term { return gen.SubT(x[0], x[1]) })
	g.Prod("sub-m", N, []*gen.Ty{tyMSN, S}, func(x []*gen.Term) *gen.Term { return gen.SubT(x[0], x[1]) })
	g.Prod("sub-mn", S, []*gen.Ty{tyMNS, N}, func(x []*gen.Term) *gen.Term { return gen.SubT(x[0], x[1]) })
	bin(g, "%", N, N, N)
	bin(g, "/", N, N, N)
	bin(g, "-", N, N, N)
	fn(g, "get", N, tyLNum, N, N)
	fn(g, "get", N, tyMSN, S, N)
	fn(g, "get", S, tyMNS, N, S)
	fn(g, "get", N, tyMbNum, N)
	fn(g, "match", B, S, S)
	fn(g, "isset", B, tyMSN, S)
	fn(g, "isset", B, tyMNS, N)
	fn(g, "len", N, tyLNum)
	fn(g, "max", N, tyLNum)
	fn(g, "min", N, tyLNum)
	fn(g, "if", N, B, N, N)
	// guards: the unselected operand of && / || / ?: may hold a partial operation that is undefined
	bin(g, "&&", B, B, B)
	bin(g, "||", B, B, B)
	g.Prod("?:", N, []*gen.Ty{B, N, N}, func(x []*gen.Term) *gen.Term { return gen.Ternary(x[0], x[1], x[2]) })
	g.Prod("list1", tyLNum, []*gen.Ty{N}, func(x []*gen.Term) *gen.Term { return gen.ListT(x[0]) })
	return g
}

// size families: programs that outgrow the VM's initial stack and its 8/16-bit operand ranges.
func sizePrograms(tier string) []*engine.Case {
	var out []*engine.Case
	add := func(fam, key, src string) {
		out = append(out, &engine.Case{Family: fam, Key: key, Src: src, Args: []string{"src"}})
	}
	rep := func(s string, n int, sep string) string {
		xs := make([]string, n)
		for i := range xs {
			xs[i] = s
		}
		return strings.Join(xs, sep)
	}
	ns := []int{41, 42, 43, 44, 100, 255, 256, 257, 541, 542, 543, 600, 3000}
	if tier == "thorough" {
		ns = append(ns, 20000, 65535, 65536, 70000)
	}
	for _, n := range ns {
		add("size-list", fmt.Sprintf("list-%d", n), "len(["+rep("1", n, ",")+"])")
		add("size-sum", fmt.Sprintf("sum-%d", n), rep("1", n, "+"))
		add("size-map", fmt.Sprintf("map-%d", n), "len(["+mapEntries(n)+"])")
		if n <= 3000 {
			// right-nested: n operands are live on the stack before the first addition
			add("size-nest", fmt.Sprintf("nest-%d", n), rep("1+(", n-1, "")+"1"+rep(")", n-1, ""))
			add("size-if", fmt.Sprintf("if-%d", n), rep("if(true,", n, "")+"1"+rep(",0)", n, ""))
			add("size-listnest", fmt.Sprintf("listnest-%d", n), rep("[", n, "")+"1"+rep("]", n, "")+rep("[0]", n, ""))
		}
	}
	// a list subscript at the far end of a wide literal, out of range by one
	add("size-index", "idx-300", "["+rep("1", 300, ",")+"][300]")
	add("size-index", "idx-299", "["+rep("1", 300, ",")+"][299]")
	return out
}

func mapEntries(n int) string {
	xs := make([]string, n)
	for i := range xs {
		xs[i] = fmt.Sprintf("%d:%d", i, i)
	}
	return strings.Join(xs, ",")
}

func (c02) Generate(tier string, yield func(*engine.Case) bool) {
	ok := true
	emit := func(c *engine.Case) {
		if ok && !yield(c) {
			ok = false
		}
	}
	// the size families first: a deadline must never cut them
	for _, c := range sizePrograms(tier) {
		emit(c)
	}
	// the guarded idioms (three levels deep), on every back end
	{
		v, num, str := gen.VarT, gen.NumT, gen.StrT
		in := gen.Infix
		sub := gen.SubT
		penv := partialEnv()
		for _, t := range []*gen.Term{
			in("&&", in(">", gen.CallT("len", v("l")), num(2)), in(">", sub(v("l"), num(2)), num(0))),
			in("&&", gen.CallT("isset", v("m"), str("zz")), in(">", sub(v("m"), str("zz")), num(0))),
			in("&&", in("!=", num(0), num(0)), in("==", in("%", num(1), num(0)), num(1))),
			in("&&", gen.BoolT(false), gen.CallT("match", str("("), str("a"))),
			in("||", gen.BoolT(true), in(">", sub(v("l"), num(9)), num(0))),
			in("||", in("==", gen.CallT("len", v("le")), num(0)), in(">", sub(v("le"), num(0)), num(0))),
			gen.Ternary(in(">", gen.CallT("len", v("l")), num(5)), sub(v("l"), num(5)), num(0)),
			gen.CallT("if", gen.CallT("isset", v("m"), str("zz")), sub(v("m"), str("zz")), num(0)),
			in("&&", in("&&", gen.BoolT(true), gen.BoolT(false)), in(">", sub(v("l"), num(9)), num(0))),
			in("||", in("&&", gen.BoolT(false), in(">", sub(v("l"), num(9)), num(0))), in("==", in("%", num(1), num(0)), num(1))),
			in("&&", in("<", sub(v("l"), num(0)), num(0)), in("==", sub(v("mn"), num(7)), str("a"))),
		} {
			emit(progCase("guards", t, penv, "P"))
		}
		// method-syntax calls whose arguments are themselves sugar (operators, unary minus, ternary, subscripts):
		// an accepted program must not stop on a node the desugarer left behind
		for _, t := range []*gen.Term{
			gen.Method("max", num(1), in("+", num(2), num(3))), gen.Method("max", num(1), gen.Neg(5)), gen.Method("max", num(1), gen.Ternary(gen.BoolT(true), num(7), num(0))),
			gen.Method("max", in("+", num(2), num(3)), num(1)), gen.Method("max", num(1), sub(v("l"), num(0))), gen.Method("isset", v("m"), in("+", str("z"), str("z"))),
			gen.Method("max", num(1), gen.Method("max", num(2), in("*", num(2), num(3)))), gen.Method("len", sub(gen.ListT(v("l")), num(0))),
		} {
			emit(progCase("method-sugar", t, penv, "P"))
		}
		// the same through lazy FUNCTION VALUES called dynamically (user conditionals)
		funs := real.StdHost().EnvFuns()
		denv := partialEnv()
		denv.Binds = append(denv.Binds, real.Binding{Name: "lzif", V: funs["lzif"]}, real.Binding{Name: "lz1", V: funs["lz1"]}, real.Binding{Name: "lz", V: funs["lz"]})
		pick := func(n string) *gen.Term { return sub(gen.ListT(v(n)), num(0)) }
		for _, t := range []*gen.Term{
			gen.DCallT(pick("lzif"), gen.BoolT(false), sub(v("l"), num(9)), num(1)),
			gen.DCallT(pick("lzif"), in(">", gen.CallT("len", v("l")), num(5)), sub(v("l"), num(5)), num(0)),
			gen.DCallT(pick("lzif"), gen.BoolT(true), num(1), in("%", num(1), num(0))),
			gen.DCallT(pick("lz1"), num(1), sub(v("l"), num(9))),
			gen.DCallT(pick("lz"), sub(v("l"), num(9)), num(1)),
			gen.DCallT(gen.CallT("if", gen.BoolT(true), v("lz1"), v("lz")), sub(v("l"), num(0)), sub(v("m"), str("zz"))),
		} {
			emit(progCase("guards-dynamic", t, denv, "P"))
		}
	}
	g, env := partialGrammar(true), partialEnv()
	for _, ty := range []*gen.Ty{gen.Num, gen.Str, gen.Bool} {
		if tier == "thorough" {
			// every boundary value in every position at depth 1 and below one constructor; ALL of
			// depth 2 over the 6 core atoms (full depth 2 over all boundary atoms is 1.1e8 programs)
			g.Each(ty, 1, func(t *gen.Term) bool { emit(progCase("partial", t, env, "P")); return ok })
			g.EachOneDeep(ty, func(t *gen.Term) bool { emit(progCase("partial1", t, env, "P")); return ok })
			partialGrammar(false).Each(ty, 2, func(t *gen.Term) bool { emit(progCase("partial2", t, env, "P")); return ok })
		} else {
			// every boundary value in every position at depth 1; compositions over the 6 core atoms
			g.Each(ty, 1, func(t *gen.Term) bool { emit(progCase("partial", t, env, "P")); return ok })
			partialGrammar(false).EachOneDeep(ty, func(t *gen.Term) bool { emit(progCase("partial1", t, env, "P")); return ok })
		}
	}
}

// refSize: the value the size families define (all of them are closed arithmetic over 1s).
func refSize(fam, key string) (float64, bool) {
	var n int
	parts := strings.Split(key, "-")
	fmt.Sscanf(parts[len(parts)-1], "%d", &n)
	switch fam {
	case "size-list", "size-map":
		return float64(n), true
	case "size-sum", "size-nest":
		return float64(n), true
	case "size-if", "size-listnest":
		return 1, true
	case "size-index":
		if key == "idx-299" {
			return 1, true
		}
		return 0, false // out of range
	}
	return 0, false
}

func (c02) Run(c *engine.Case) *engine.Result {
	h := real.StdHost()
	h.EnvFuns() // function-typed environment bindings resolve to this host's functions
	if len(c.Args) > 0 && c.Args[0] == "src" {
		res := &engine.Result{NonTrivial: true}
		want, defined := refSize(c.Family, c.Key)
		var outs []string
		for _, b := range real.Backends {
			engine.Heartbeat()
			o := real.Run(b, h, c.Src, real.EnvSpec{Rep: "raw"})
			res.Execs++
			bo := &BackendObs{Obs: o}
			if o.Val != nil {
				bo.Val, bo.ValErr = real.FromVal(o.Val)
			}
			outs = append(outs, string(b)+"="+bo.Outcome())
			if (b == real.VMSwitch || b == real.VMCall) && (o.CompileErr == "overflow" || o.Panic == "overflow") {
				continue // capacity refusal at compile time is allowed for the VM
			}
			if b == real.VMCall && o.RunErr == "over exec limit" {
				continue // judged by C03
			}
			switch {
			case o.Panic != "":
				res.Violations = append(res.Violations, vf("internal-fault", "%s (%s) on %s: panic %s", c.Key, c.Family, b, stable(o.Panic)))
			case o.CompileErr != "":
				res.Violations = append(res.Violations, vf("size-rejected", "%s (%s) on %s rejected at compile time: %s", c.Key, c.Family, b, stable(o.CompileErr)))
			case o.RunErr != "":
				kind := real.FailKind(o.RunErr)
				if kind == "internal" {
					res.Violations = append(res.Violations, vf("internal-fault", "%s (%s) on %s: %s", c.Key, c.Family, b, stable(o.RunErr)))
				} else if defined {
					res.Violations = append(res.Violations, vf("unexpected-failure", "%s (%s) on %s failed: %s", c.Key, c.Family, b, stable(o.RunErr)))
				} else if kind != "index" {
					res.Violations = append(res.Violations, vf("wrong-failure-kind", "%s on %s: %s", c.Key, b, stable(o.RunErr)))
				}
			case bo.ValErr != nil:
				// preservation is C01's
			case !defined:
				res.Violations = append(res.Violations, vf("missing-failure", "%s on %s returned %s", c.Key, b, bo.Val.Describe()))
			case bo.Val.T.K != gen.KNum || bo.Val.N != want:
				res.Violations = append(res.Violations, vf("size-wrong-value", "%s (%s) on %s = %s, expected %v", c.Key, c.Family, b, bo.Val.Describe(), want))
			}
		}
		res.Outcome = strings.Join(outs, " ; ")
		return res
	}
	d := loadProg(c)
	p := observe(d.Term, d.Env, h, real.Backends, false)
	res := &engine.Result{Execs: p.Execs, Outcome: p.outcomeSummary()}
	res.NonTrivial = strings.ContainsAny(p.Src, "[%") || strings.Contains(p.Src, "get(") || strings.Contains(p.Src, "match(")
	res.Violations = p.judgeProgress()
	if p.RefErr != nil {
		res.Violations = append(res.Violations, vf("harness-generated-ill-typed", "%s: %s", p.Src, p.RefErr.Msg))
	}
	return res
}
