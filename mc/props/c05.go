package props

import (
	"encoding/json"
	"fmt"
	"strings"

	"github.com/goghcrow/yae"
	"github.com/goghcrow/yae/types"
	"github.com/goghcrow/yae/val"

	"verif/mc/engine"
	"verif/mc/gen"
	"verif/mc/real"
	"verif/mc/ref"
)

// C05 — the type checker accepts exactly the well-typed programs and infers their type.
type c05 struct{}

func init() { engine.Register(c05{}) }

func (c05) ID() string { return "C05" }

func (c05) Meta(tier string) engine.Meta {
	return engine.Meta{
		Level: "model_checking",
		Rule: "UNTYPED enumeration (well- and ill-typed alike) of all terms of depth <= 1 over 12 atoms of 12 types and 30 constructors (operators, overloaded and polymorphic built-ins, subscripts, present / absent members, list / map / object literals incl. duplicate fields), all depth-2 terms with one nested operand (quick: nested operand well-typed; thorough: any), every single-position replacement of a sub-term of the well-typed small-alphabet programs by an atom of every other type, six homogeneity contexts ([x,y], map values, if, ==, union, get) over all pairs of 96 composite operands that repeat variables, a variable of each of 16 types under 23 contexts, all pairs of five function-typed variables (num->num twice, num->str, str->num, (num,num)->num) under 8 homogeneity / call contexts, and nine families of additional user overloads (mono vs poly, two matching polys, undetermined result variable, object-typed mono parameters in both field orders also nested in objects / maps / optionals, polys that share type variables, overloads shadowing built-ins, overloads extending built-ins to new argument types) registered in ALL k! orders (k<=4), each written once with separate and once with shared type-variable objects, and each family also registered AFTER the engine's first compilation with the program compiled before and after against one shared *types.Env; every reserved word bound in the environment and used as a variable. Oracle: the reference checker's accept / reject and inferred type against types.Infer on the desugared tree and against Expr.Compile on two back ends; no accepted program may fail with a type error at run time. non-trivial = not a bare atom",
		Bound: "depth 2 with one nested operand; arity <= 3; k <= 4 extra overloads",
		Assumptions: []string{
			"⊥ (element type of [] / [:]) equals only itself, matches a bare type variable, and never equals a concrete parameter (README: bottom is only used for empty list / map)",
			"the first polymorphic overload that instantiates is selected even if the following equality assertion then rejects the call; a later monomorphic registration with an equal parameter tuple replaces the earlier; user registrations made before the first compilation precede the built-ins",
		},
	}
}

func c05Env() real.EnvSpec {
	return real.EnvSpec{Rep: "raw", Binds: []real.Binding{
		{Name: "t", V: ref.TimeV(t0)},
		{Name: "l", V: ref.ListV(gen.Num, nums(1, 2)...)},
		{Name: "ls", V: ref.ListV(gen.Str, strs("a")...)},
		{Name: "m", V: ref.MapV(gen.Str, gen.Num, ref.StrV("a"), ref.NumV(1))},
		{Name: "o", V: oab(1, "x")},
		{Name: "mb", V: ref.JustV(ref.NumV(1))},
	}}
}

type uctor struct {
	arity int
	build func(x []*gen.Term) *gen.Term
}

func c05Atoms() []*gen.Term {
	return []*gen.Term{gen.NumT(1), gen.StrT("a"), gen.BoolT(true), gen.VarT("t"), gen.VarT("l"), gen.VarT("ls"),
		gen.VarT("m"), gen.VarT("o"), gen.VarT("mb"), gen.ListT(), gen.MapT(), gen.ObjT(nil)}
}

func c05Ctors() []uctor {
	var cs []uctor
	call := func(name string, n int) {
		cs = append(cs, uctor{n, func(x []*gen.Term) *gen.Term { return callTerm(name, x...) }})
	}
	for _, op := range []string{"+", "-", "==", "<", "&&"} {
		call(op, 2)
	}
	call("-", 1)
	call("!", 1)
	for _, f := range []string{"len", "max", "string", "abs", "strtotime"} {
		call(f, 1)
	}
	for _, f := range []string{"max", "isset", "union", "get", "match"} {
		call(f, 2)
	}
	call("get", 3)
	call("if", 3)
	cs = append(cs,
		uctor{2, func(x []*gen.Term) *gen.Term { return gen.SubT(x[0], x[1]) }},
		uctor{1, func(x []*gen.Term) *gen.Term { return gen.MemT(x[0], "a") }},
		uctor{1, func(x []*gen.Term) *gen.Term { return gen.MemT(x[0], "zz") }},
		uctor{1, func(x []*gen.Term) *gen.Term { return gen.ListT(x[0]) }},
		uctor{2, func(x []*gen.Term) *gen.Term { return gen.ListT(x[0], x[1]) }},
		uctor{2, func(x []*gen.Term) *gen.Term { return gen.MapT(x[0], x[1]) }},
		uctor{3, func(x []*gen.Term) *gen.Term { return gen.MapT(x[0], x[1], gen.StrT("k"), x[2]) }},
		uctor{3, func(x []*gen.Term) *gen.Term { return gen.MapT(x[0], x[1], x[2], gen.NumT(7)) }},
		uctor{1, func(x []*gen.Term) *gen.Term { return gen.ObjT([]string{"a"}, x[0]) }},
		uctor{2, func(x []*gen.Term) *gen.Term { return gen.ObjT([]string{"a", "b"}, x[0], x[1]) }},
		uctor{2, func(x []*gen.Term) *gen.Term { return gen.ObjT([]string{"a", "a"}, x[0], x[1]) }},
		uctor{1, func(x []*gen.Term) *gen.Term { return gen.CallT("nosuchfun", x[0]) }},
		uctor{3, func(x []*gen.Term) *gen.Term { return gen.Ternary(x[0], x[1], x[2]) }},
	)
	return cs
}

func product(lists [][]*gen.Term, yield func(args []*gen.Term) bool) bool {
	idx := make([]int, len(lists))
	for _, l := range lists {
		if len(l) == 0 {
			return true
		}
	}
	for {
		args := make([]*gen.Term, len(lists))
		for i := range lists {
			args[i] = lists[i][idx[i]]
		}
		if !yield(args) {
			return false
		}
		j := len(idx) - 1
		for ; j >= 0; j-- {
			idx[j]++
			if idx[j] < len(lists[j]) {
				break
			}
			idx[j] = 0
		}
		if j < 0 {
			return true
		}
	}
}

// overload families -----------------------------------------------------------------------------

type sigDesc struct {
	Name   string    `json:"name"`
	Params []*gen.Ty `json:"params"`
	Ret    *gen.Ty   `json:"ret"`
	Tag    string    `json:"tag"`
}

type c05Data struct {
	Term *gen.Term    `json:"term"`
	Env  real.EnvSpec `json:"env"`
	Sigs []sigDesc    `json:"sigs,omitempty"` // extra user overloads, in registration order
	// SharedVars: all signatures are written with one set of type-variable objects
	SharedVars bool `json:"shared_vars,omitempty"`
	EnvFuns    bool `json:"env_funs,omitempty"`
	// Late: the signatures are registered after the engine's first compilation
	Late bool `json:"late,omitempty"`
}

func zeroOf(t *gen.Ty) *ref.V {
	switch t.K {
	case gen.KNum:
		return ref.NumV(0)
	case gen.KStr:
		return ref.StrV("")
	case gen.KBool:
		return ref.BoolV(false)
	case gen.KList:
		return ref.ListV(t.El)
	}
	return ref.NumV(0)
}

// customHost builds user overloads whose implementations return the tag-distinguishing zero of
// their (instantiated) result type; only acceptance and types are judged.
func customHost(sigs []sigDesc, sharedVars bool) *real.Host {
	tr := []string{}
	h := &real.Host{Trace: &tr}
	shared := real.NewVars()
	for _, s := range sigs {
		s := s
		vars := real.NewVars()
		if sharedVars {
			vars = shared
		}
		ps := make([]*types.Type, len(s.Params))
		for i, p := range s.Params {
			ps[i] = real.ToType(p, vars)
		}
		rt := real.ToType(s.Ret, vars)
		h.Sigs = append(h.Sigs, &ref.Sig{Name: s.Name, Params: s.Params, Ret: s.Ret, Host: true, Tag: s.Tag,
			Impl: func(ev *ref.Eval, x []*ref.V) (*ref.V, *ref.Fail) {
				if s.Ret.K == gen.KVar {
					return x[0], nil
				}
				return zeroOf(s.Ret), nil
			}})
		h.Vals = append(h.Vals, val.Fun(types.Fun(s.Name, ps, rt), func(x ...*val.Val) *val.Val {
			if s.Ret.K == gen.KVar {
				return x[0]
			}
			return real.ToVal(zeroOf(s.Ret))
		}))
	}
	return h
}

func permutations(n int) [][]int {
	if n == 0 {
		return [][]int{{}}
	}
	var out [][]int
	for _, p := range permutations(n - 1) {
		for i := 0; i <= len(p); i++ {
			q := append(append(append([]int(nil), p[:i]...), n-1), p[i:]...)
			out = append(out, q)
		}
	}
	return out
}

type ovFamily struct {
	name  string
	sigs  []sigDesc
	progs []*gen.Term
}

func overloadFamilies() []ovFamily {
	a, b := gen.Var("a"), gen.Var("b")
	N, S := gen.Num, gen.Str
	one, str, lst, empty := gen.NumT(1), gen.StrT("a"), gen.ListT(gen.NumT(1)), gen.ListT()
	oAB := gen.ObjT([]string{"a", "b"}, gen.NumT(1), gen.StrT("x"))
	oBA := gen.ObjT([]string{"b", "a"}, gen.StrT("x"), gen.NumT(1))
	c := func(f string, as ...*gen.Term) *gen.Term { return gen.CallT(f, as...) }
	return []ovFamily{
		{"mono-vs-poly", []sigDesc{
			{"f", []*gen.Ty{N}, N, "mono-num"},
			{"f", []*gen.Ty{a}, S, "poly-any"},
			{"f", []*gen.Ty{gen.List(a)}, gen.Bool, "poly-list"},
			{"f", []*gen.Ty{S}, S, "mono-str"},
		}, []*gen.Term{c("f", one), c("f", str), c("f", lst), c("f", empty), c("f", gen.BoolT(true)), c("f", c("f", lst)), c("f", gen.VarT("o"))}},
		{"two-matching-polys", []sigDesc{
			{"g", []*gen.Ty{a, b}, gen.Bool, "poly-ab"},
			{"g", []*gen.Ty{a, a}, S, "poly-aa"},
			{"g", []*gen.Ty{gen.List(a), a}, N, "poly-la-a"},
		}, []*gen.Term{c("g", one, one), c("g", one, str), c("g", lst, one), c("g", lst, str), c("g", empty, one), c("g", lst, lst)}},
		{"undetermined-result", []sigDesc{
			{"h", []*gen.Ty{a}, b, "poly-a-to-b"},
			{"h", []*gen.Ty{a}, gen.List(a), "poly-a-to-list"},
			{"h", []*gen.Ty{gen.List(a)}, a, "poly-list-to-a"},
		}, []*gen.Term{c("h", one), c("h", lst), c("h", empty), c("h", c("h", one)), gen.SubT(c("h", one), gen.NumT(0))}},
		{"undetermined-nested", []sigDesc{
			{"mk", []*gen.Ty{a}, gen.List(b), "poly-a-to-list-b"},
			{"mk", []*gen.Ty{a}, a, "poly-a-to-a"},
			{"mk", []*gen.Ty{a}, gen.Map(S, b), "poly-a-to-map-b"},
			{"mk", []*gen.Ty{gen.List(a)}, gen.Obj(gen.F("f", a), gen.F("g", b)), "poly-list-to-obj-b"},
		}, []*gen.Term{c("mk", one), gen.Infix("+", c("mk", one), one), gen.ListT(c("mk", one)), gen.ObjT([]string{"f"}, c("mk", gen.BoolT(true))),
			c("mk", lst), gen.MemT(c("mk", lst), "f"), c("len", c("mk", str)), c("mk", empty)}},
		{"object-mono", []sigDesc{
			{"k", []*gen.Ty{tyOAB}, N, "mono-ab"},
			{"k2", []*gen.Ty{tyOBA}, S, "mono-ba"},
			{"k", []*gen.Ty{gen.List(tyOAB)}, S, "mono-list-ab"},
		}, []*gen.Term{c("k", oAB), c("k", oBA), c("k2", oAB), c("k2", oBA), c("k", gen.VarT("o")), c("k2", gen.VarT("o")),
			c("k", gen.ListT(oAB)), c("k", gen.ListT(oBA)), c("k", gen.ListT(oBA, oAB))}},
		{"object-mono-nested", []sigDesc{
			{"kn", []*gen.Ty{gen.Obj(gen.F("p", tyOAB), gen.F("id", N))}, N, "mono-nested-ab"},
			{"kn", []*gen.Ty{gen.Map(S, tyOBA)}, S, "mono-map-ba"},
			{"kn", []*gen.Ty{gen.Maybe(tyOAB)}, gen.Bool, "mono-maybe-ab"},
		}, []*gen.Term{c("kn", gen.ObjT([]string{"p", "id"}, oAB, one)), c("kn", gen.ObjT([]string{"p", "id"}, oBA, one)), c("kn", gen.ObjT([]string{"id", "p"}, one, oBA)),
			c("kn", gen.MapT(str, oAB)), c("kn", gen.MapT(str, oBA)), c("kn", gen.MapT(str, oBA, gen.StrT("z"), oAB)),
			c("kn", gen.ObjT([]string{"p", "id"}, oAB, str)), c("kn", gen.ListT(oAB))}},
		{"polys-sharing-variables", []sigDesc{
			{"pick", []*gen.Ty{a, N}, a, "poly-a-num"},
			{"pick", []*gen.Ty{gen.List(a), S}, a, "poly-lista-str"},
			{"pick", []*gen.Ty{a, gen.List(a)}, gen.List(a), "poly-a-lista"},
		}, []*gen.Term{c("pick", lst, str), c("pick", lst, one), c("pick", one, one), c("pick", str, str), c("pick", one, lst), c("pick", lst, gen.ListT(lst)),
			gen.Infix("+", c("pick", lst, str), one), c("pick", gen.ListT(str), str), gen.Infix("+", c("pick", gen.ListT(str), str), str)}},
		{"extend-builtins", []sigDesc{
			{"len", []*gen.Ty{gen.Maybe(a)}, N, "user-len-maybe"},
			{"max", []*gen.Ty{gen.Map(S, a)}, a, "user-max-map"},
			{"string", []*gen.Ty{a, b}, S, "user-string-2"},
		}, []*gen.Term{c("len", gen.VarT("mb")), gen.Infix("+", c("len", gen.VarT("mb")), c("len", lst)), c("len", lst), c("len", gen.VarT("m")), c("max", gen.VarT("m")), c("max", lst),
			gen.Infix("+", c("max", gen.VarT("m")), c("max", lst)), c("string", one, str), c("string", one), gen.Infix("+", c("string", one), c("string", one, lst))}},
		{"shadow-builtins", []sigDesc{
			{"len", []*gen.Ty{S}, S, "user-len-str"},
			{"len", []*gen.Ty{gen.List(a)}, S, "user-len-list"},
			{"+", []*gen.Ty{gen.Bool, gen.Bool}, gen.Bool, "user-plus-bool"},
			{"abs", []*gen.Ty{a}, a, "user-abs-any"},
		}, []*gen.Term{c("len", str), c("len", lst), c("len", gen.VarT("m")), gen.Infix("+", gen.BoolT(true), gen.BoolT(false)), gen.Infix("+", one, one),
			c("abs", one), c("abs", str), gen.Infix("+", c("len", lst), str)}},
	}
}

func (c05) Generate(tier string, yield func(*engine.Case) bool) {
	ok := true
	env := c05Env()
	emitD := func(fam, tag string, d c05Data) {
		if !ok {
			return
		}
		src := d.Term.Render()
		lazy := func() json.RawMessage {
			b, err := json.Marshal(d)
			if err != nil {
				panic(err)
			}
			return b
		}
		if !yield(&engine.Case{Family: fam, Key: tag + "|" + src, Src: src, Lazy: lazy}) {
			ok = false
		}
	}
	emit := func(fam string, t *gen.Term) bool {
		emitD(fam, "", c05Data{Term: t, Env: env})
		return ok
	}
	atoms, ctors := c05Atoms(), c05Ctors()
	// ---- untyped depth <= 1
	var d1 []*gen.Term
	for _, a := range atoms {
		emit("untyped-0", a)
	}
	for _, c := range ctors {
		lists := make([][]*gen.Term, c.arity)
		for i := range lists {
			lists[i] = atoms
		}
		product(lists, func(args []*gen.Term) bool {
			t := c.build(args)
			d1 = append(d1, t)
			return emit("untyped-1", t)
		})
	}
	if !ok {
		return
	}
	// ---- untyped depth 2 with one nested operand
	// quick: the nested operand is well-typed; thorough: any depth-1 term. The other operands come
	// from 6 atoms in both tiers (with all 12 atoms the thorough space exceeds 3e7 programs and was
	// never completed inside the deadline).
	nested := d1
	outer := []*gen.Term{gen.NumT(1), gen.StrT("a"), gen.BoolT(true), gen.VarT("l"), gen.VarT("o"), gen.ListT()}
	if tier != "thorough" {
		nested = nil
		funs := real.StdHost().RefFuns()
		for _, t := range d1 {
			if _, err := ref.NewChecker(funs, env.Types()).Check(t); err == nil {
				nested = append(nested, t)
			}
		}
	}
	for _, c := range ctors {
		for pos := 0; pos < c.arity && ok; pos++ {
			lists := make([][]*gen.Term, c.arity)
			for i := range lists {
				if i == pos {
					lists[i] = nested
				} else {
					lists[i] = outer
				}
			}
			product(lists, func(args []*gen.Term) bool { return emit("untyped-2", c.build(args)) })
		}
	}
	if !ok {
		return
	}
	// ---- homogeneity contexts over pairs of composite operands that repeat a variable
	{
		vs := []*gen.Term{gen.VarT("l"), gen.VarT("ls"), gen.VarT("m"), gen.VarT("o"), gen.NumT(1), gen.StrT("a"), gen.ListT(gen.NumT(1)), gen.ListT(gen.StrT("s"))}
		var comps []*gen.Term
		for _, v := range vs {
			for _, w := range vs {
				comps = append(comps, gen.ObjT([]string{"a", "b"}, v, w))
			}
		}
		for _, v := range vs[:4] {
			for _, w := range vs[:4] {
				comps = append(comps, gen.ListT(v, w), gen.MapT(gen.StrT("p"), v, gen.StrT("q"), w))
			}
		}
		ctx := []func(x, y *gen.Term) *gen.Term{
			func(x, y *gen.Term) *gen.Term { return gen.ListT(x, y) },
			func(x, y *gen.Term) *gen.Term { return gen.MapT(gen.StrT("k"), x, gen.StrT("j"), y) },
			func(x, y *gen.Term) *gen.Term { return gen.CallT("if", gen.BoolT(true), x, y) },
			func(x, y *gen.Term) *gen.Term { return gen.Infix("==", gen.ListT(x), gen.ListT(y)) },
			func(x, y *gen.Term) *gen.Term { return gen.CallT("union", gen.ListT(x), gen.ListT(y)) },
			func(x, y *gen.Term) *gen.Term { return gen.CallT("get", gen.ListT(x), gen.NumT(0), y) },
		}
		for _, cf := range ctx {
			for _, x := range comps {
				for _, y := range comps {
					if !emit("homogeneity", cf(x, y)) {
						return
					}
				}
			}
		}
	}
	// ---- type-breaking mutation of well-typed programs
	g, senv := smallGrammar()
	repl := []*gen.Term{gen.NumT(1), gen.StrT("a"), gen.BoolT(true), gen.VarT("l"), gen.VarT("m"), gen.VarT("o"), gen.ListT(), gen.MapT()}
	mutate := func(t *gen.Term) bool {
		var walk func(cur *gen.Term, rebuild func(*gen.Term) *gen.Term) bool
		walk = func(cur *gen.Term, rebuild func(*gen.Term) *gen.Term) bool {
			for _, r := range repl {
				emitD("mutation", "", c05Data{Term: rebuild(r), Env: senv})
				if !ok {
					return false
				}
			}
			for i := range cur.Args {
				i := i
				if !walk(cur.Args[i], func(x *gen.Term) *gen.Term {
					cp := *cur
					cp.Args = append([]*gen.Term(nil), cur.Args...)
					cp.Args[i] = x
					return rebuild(&cp)
				}) {
					return false
				}
			}
			return true
		}
		return walk(t, func(x *gen.Term) *gen.Term { return x })
	}
	for _, ty := range []*gen.Ty{gen.Num, gen.Bool, gen.Str, tyLNum} {
		if tier == "thorough" {
			g.EachOneDeep(ty, mutate)
		} else {
			g.Each(ty, 1, mutate)
		}
		if !ok {
			return
		}
	}
	// ---- a variable of every type of the universe under every context
	uni := []*ref.V{ref.NumV(1), ref.StrV("a"), ref.BoolV(true), ref.TimeV(t0),
		ref.ListV(gen.Num, nums(1)...), ref.ListV(gen.Str, strs("a")...), ref.ListV(tyOAB, oab(1, "x")), ref.ListV(gen.Bot),
		ref.MapV(gen.Str, gen.Num, ref.StrV("a"), ref.NumV(1)), ref.MapV(gen.Num, gen.Str, ref.NumV(1), ref.StrV("x")), ref.MapV(gen.Bot, gen.Bot),
		oab(1, "x"), oba(1, "x"), ref.ObjV(nil), ref.JustV(ref.NumV(1)), ref.NothingV(tyOAB)}
	x := gen.VarT("x")
	ctxs := []*gen.Term{x, gen.CallT("len", x), gen.Infix("+", x, x), gen.Infix("==", x, x), gen.Infix("<", x, x), gen.SubT(x, gen.NumT(0)), gen.SubT(x, gen.StrT("a")),
		gen.MemT(x, "a"), gen.MemT(x, "b"), gen.CallT("string", x), gen.CallT("get", x, gen.NumT(1)), gen.CallT("get", x, gen.NumT(0), gen.NumT(1)), gen.CallT("if", gen.BoolT(true), x, x),
		gen.ListT(x, x), gen.MapT(x, gen.NumT(1)), gen.MemT(gen.ObjT([]string{"f"}, x), "f"), gen.Prefix("-", x), gen.Prefix("!", x), gen.CallT("max", x),
		gen.CallT("isset", x, gen.StrT("a")), gen.CallT("union", x, x), gen.CallT("get", x, gen.StrT("a"), gen.NumT(1)), gen.CallT("print", x)}
	for _, v := range uni {
		e := real.EnvSpec{Rep: "raw", Binds: []real.Binding{{Name: "x", V: v}}}
		for _, c := range ctxs {
			emitD("var-of-each-type", v.T.String(), c05Data{Term: c, Env: e})
		}
	}
	// ---- function-typed variables (num->num twice, num->str, str->num, (num,num)->num) under homogeneity contexts
	{
		fv := real.StdHost().EnvFuns()
		names := []string{"f", "g", "gs", "hs", "h2"}
		var binds []real.Binding
		for _, n := range names {
			binds = append(binds, real.Binding{Name: n, V: fv[n]})
		}
		fenv := real.EnvSpec{Rep: "raw", Binds: binds}
		for _, a := range names {
			for _, b := range names {
				x, y := gen.VarT(a), gen.VarT(b)
				for _, t := range []*gen.Term{gen.ListT(x, y), gen.MapT(gen.StrT("p"), x, gen.StrT("q"), y), gen.CallT("if", gen.BoolT(true), x, y),
					gen.DCallT(gen.SubT(gen.ListT(x, y), gen.NumT(1)), gen.NumT(1)), gen.Infix("+", gen.DCallT(gen.CallT("if", gen.BoolT(false), x, y), gen.NumT(1)), gen.NumT(1)),
					gen.CallT("get", gen.ListT(x), gen.NumT(0), y), gen.ObjT([]string{"p", "q"}, x, y), gen.DCallT(gen.SubT(gen.ListT(x), gen.NumT(0)), gen.DCallT(gen.SubT(gen.ListT(y), gen.NumT(0)), gen.NumT(1)))} {
					emitD("function-typed-vars", "", c05Data{Term: t, Env: fenv, EnvFuns: true})
				}
			}
		}
	}
	// ---- reserved words can never be used as variables, even when the environment binds them
	for _, w := range ref.ReservedWords() {
		renv := real.EnvSpec{Rep: "raw", Binds: []real.Binding{{Name: w, V: ref.NumV(1)}, {Name: "n", V: ref.NumV(2)}}}
		x := gen.VarT(w)
		for _, t := range []*gen.Term{x, gen.Infix("+", x, gen.VarT("n")), gen.ListT(gen.VarT("n"), x), gen.CallT("if", gen.BoolT(true), gen.VarT("n"), x)} {
			emitD("reserved-words", w, c05Data{Term: t, Env: renv})
		}
	}
	// ---- overloads registered AFTER the engine's first compilation (they then follow the built-ins),
	// with the target program compiled once before and once after, against one shared *types.Env
	for _, fam := range overloadFamilies() {
		tags := make([]string, len(fam.sigs))
		for i, s := range fam.sigs {
			tags[i] = s.Tag
		}
		for _, p := range fam.progs {
			emitD("overloads-late-"+fam.name, "late:"+strings.Join(tags, ">"), c05Data{Term: p, Env: env, Sigs: fam.sigs, Late: true})
		}
	}
	// ---- overload families in all registration orders
	for _, fam := range overloadFamilies() {
		for _, perm := range permutations(len(fam.sigs)) {
			sigs := make([]sigDesc, len(perm))
			tags := make([]string, len(perm))
			for i, j := range perm {
				sigs[i] = fam.sigs[j]
				tags[i] = fam.sigs[j].Tag
			}
			for _, p := range fam.progs {
				emitD("overloads-"+fam.name, strings.Join(tags, ">"), c05Data{Term: p, Env: env, Sigs: sigs})
				// the same registrations written with ONE set of type-variable objects shared by all signatures
				emitD("overloads-"+fam.name, "sharedvars:"+strings.Join(tags, ">"), c05Data{Term: p, Env: env, Sigs: sigs, SharedVars: true})
			}
		}
		// and every non-empty subset in its listed order
		for mask := 1; mask < 1<<len(fam.sigs)-1; mask++ {
			var sigs []sigDesc
			var tags []string
			for i, s := range fam.sigs {
				if mask&(1<<i) != 0 {
					sigs = append(sigs, s)
					tags = append(tags, s.Tag)
				}
			}
			for _, p := range fam.progs {
				emitD("overloads-"+fam.name, "subset:"+strings.Join(tags, ">"), c05Data{Term: p, Env: env, Sigs: sigs})
			}
		}
	}
}

func (c05) Run(c *engine.Case) *engine.Result {
	var d c05Data
	real.StdHost().EnvFuns() // function values in case files resolve by tag
	if err := json.Unmarshal(c.Data, &d); err != nil {
		panic(err)
	}
	if d.Late {
		return c05Late(d)
	}
	var h *real.Host
	if len(d.Sigs) > 0 {
		h = customHost(d.Sigs, d.SharedVars)
	} else {
		h = real.StdHost()
	}
	if d.EnvFuns {
		h.EnvFuns()
	}
	p := observe(d.Term, d.Env, h, []real.Backend{real.VMSwitch, real.Closure}, true)
	res := &engine.Result{Execs: p.Execs, NonTrivial: len(d.Term.Args) > 0 || d.Term.Op == "var"}
	res.Outcome = fmt.Sprintf("ref=%s real=%s", p.refOutcomeType(), p.realOutcomeType())
	res.Violations = p.judgeAcceptance()
	return res
}

func (p *ProgObs) refOutcomeType() string {
	if p.RefErr != nil {
		return "REJECT"
	}
	return p.RefType.Canon()
}

func (p *ProgObs) realOutcomeType() string {
	if p.RealTypeErr != "" {
		return "REJECT"
	}
	return p.RealType.Canon()
}

// c05Late: compile the program, register the extra overloads, compile it again with the SAME
// *types.Env object. After the first compilation the built-ins are already registered, so the
// late registrations follow them in the table.
func c05Late(d c05Data) *engine.Result {
	res := &engine.Result{NonTrivial: true}
	h := customHost(d.Sigs, d.SharedVars)
	src := d.Term.Render()
	funs := &ref.Funs{}
	funs.Register(ref.BuiltIns().Sigs...)
	funs.Register(h.Sigs...)
	wantT, wantErr := ref.NewChecker(funs, d.Env.Types()).Check(d.Term)
	before := &ref.Funs{}
	before.Register(ref.BuiltIns().Sigs...)
	_, beforeErr := ref.NewChecker(before, d.Env.Types()).Check(d.Term)
	var outs []string
	for _, b := range []real.Backend{real.VMSwitch, real.Closure} {
		e := real.NewEngine(b, nil)
		tenv := d.Env.RawTypeEnv()
		compile := func() (cb yae.Callable, err error) {
			defer func() {
				if r := recover(); r != nil {
					err = fmt.Errorf("panic: %v", r)
				}
			}()
			return e.Compile(src, tenv)
		}
		_, err0 := compile()
		res.Execs++
		if (err0 == nil) != (beforeErr == nil) {
			res.Violations = append(res.Violations, vf("compile-accept-mismatch", "%s before any registration on %s: accepted=%v, the rules say %v", src, b, err0 == nil, beforeErr == nil))
		}
		e.RegisterFun(h.Vals...)
		cb, err1 := compile()
		res.Execs++
		outs = append(outs, fmt.Sprint(err1 == nil))
		switch {
		case (err1 == nil) && wantErr != nil:
			res.Violations = append(res.Violations, vf("accepts-ill-typed", "%s after registering %d overloads late on %s is accepted, the rules reject it (%s)", src, len(d.Sigs), b, wantErr.Msg))
		case err1 != nil && wantErr == nil:
			res.Violations = append(res.Violations, vf("rejects-well-typed", "%s after registering %d overloads late on %s is rejected (%s), the rules give it type %s", src, len(d.Sigs), b, stable(err1.Error()), wantT))
		}
		_ = cb // the stand-in implementations only serve acceptance: values are not judged here
	}
	res.Outcome = fmt.Sprintf("late ref=%v real=%v", wantErr == nil, outs)
	return res
}
