package props

import (
	"encoding/json"
	"fmt"
	"strings"

	"verif/mc/engine"
	"verif/mc/real"
	"verif/mc/ref"
)

// C11 — emitted bytecode is structurally safe and can only run forward.
type c11 struct{}

func init() { engine.Register(c11{}) }

func (c11) ID() string { return "C11" }

func (c11) Meta(tier string) engine.Meta {
	return engine.Meta{
		Level: "model_checking",
		Rule: "the bytecode (read through the build-tag export hook) of every accepted program of the C03 corpus — objects, partial operations, grids, literal forms, compositions, effects, nested lazies, the size families (43…3000 stack slots / constants; thorough up to 70000), branches longer than 255 and 65535 bytes, 255 / 256 arguments, dynamic calls — including thunk bodies recursively. Oracle: an independent abstract interpreter over the instruction set: complete linear decode into known opcodes; constant / size / argc operands in range and of the right kind (value, name, type of the right constructor, function whose laziness matches the call opcode and whose arity matches argc, thunk); every jump strictly forward to an instruction boundary inside the code; the typed abstract stack agrees on all paths, never underflows, matches each opcode's operand kinds, and has depth exactly 1 (of the thunk's / program's type) at the final return. Forward-only jumps + finite code imply at most one step per emitted instruction. non-trivial = programs with a jump, a call opcode or a thunk",
		Bound: "as the C03 corpus",
		Assumptions: []string{"operand layouts and stack effects per mnemonic are written from vm/opcode.go and the instruction's documented meaning (mc/ref/bc.go); opcode numbers are resolved by name through the hook"},
	}
}

func (c11) Generate(tier string, yield func(*engine.Case) bool) {
	c03{}.Generate(tier, func(c *engine.Case) bool {
		if len(c.Args) > 0 && c.Args[0] == "dyn" {
			cp := *c
			cp.Args = []string{"dynsrc"}
			cp.Key = "p" + c.Args[1]
			return yield(&cp)
		}
		return yield(c)
	})
}

func (c11) Run(c *engine.Case) *engine.Result {
	res := &engine.Result{Execs: 1}
	var src string
	env := real.EnvSpec{Rep: "raw"}
	h := real.StdHost()
	switch {
	case len(c.Args) > 0 && c.Args[0] == "src":
		src = c.Src
		var d srcData
		if len(c.Data) > 0 {
			_ = json.Unmarshal(c.Data, &d)
			if d.Env.Rep != "" {
				env = d.Env
			}
			if d.Host == "wide" {
				h = wideHost()
			}
		}
	case len(c.Args) > 0 && c.Args[0] == "dynsrc":
		return verifyDyn(c)
	default:
		d := loadProg(c)
		src, env = d.Term.Render(), d.Env
	}
	code, accepted, refused, msg := real.CompileBytecode(h, src, env)
	switch {
	case !accepted:
		res.Outcome = "rejected"
		return res
	case refused:
		res.Outcome = "capacity-refusal"
		return res
	case code == nil:
		res.Outcome = "codegen-panic"
		res.Violations = append(res.Violations, vf("codegen-panic", "%s: code generation failed with %s (only the capacity assertion 'overflow' is a permitted refusal)", trunc200(src), stable(msg)))
		return res
	}
	st := &ref.BCStats{}
	err := ref.VerifyBC(real.ToBCProgram(code), real.BCEnvFor(env), nil, st, 0)
	res.NonTrivial = st.Jumps > 0 || st.Thunks > 0 || strings.Contains(src, "(")
	res.States = st.Instructions
	res.Outcome = fmt.Sprintf("ok instr=%d jumps=%d thunks=%d", bucket(st.Instructions), st.Jumps, st.Thunks)
	if err != nil {
		res.Outcome = "unsafe"
		res.Violations = append(res.Violations, vf("bytecode-unsafe", "%s: %v", trunc200(src), err))
	}
	return res
}

func bucket(n int) int {
	b := 1
	for b < n {
		b *= 2
	}
	return b
}

func trunc200(s string) string {
	if len(s) > 200 {
		return s[:200] + "…"
	}
	return s
}
