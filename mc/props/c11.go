package props

import (
	"encoding/json"
	"fmt"
	"strings"

	"github.com/goghcrow/yae/parser/ast"
	"github.com/goghcrow/yae/parser/pos"

	"verif/mc/engine"
	"verif/mc/real"
	"verif/mc/ref"
)

// C11 — emitted bytecode is structurally safe and can only run forward.
type c11 struct{}

func init() { engine.Register(c11{}) }

func (c11) ID() string { return "C11" }

func (c11) Meta(tier string) engine.Meta {
	return engine.Meta{
		Level: "model_checking",
		Rule: "the bytecode (read through the build-tag export hook) of every accepted program of the C03 corpus — objects, partial operations, grids, literal forms, compositions, effects, nested lazies, the size families (43…3000 stack slots / constants; thorough up to 70000), branches longer than 255 and 65535 bytes, 255 / 256 arguments, dynamic calls — including thunk bodies recursively; plus list / map / object literals and lazy-call thunk bodies with 255…70000 members built directly as trees (the VM must either refuse with its capacity assertion or emit safe code). Oracle: an independent abstract interpreter over the instruction set: complete linear decode into known opcodes; constant / size / argc operands in range and of the right kind (value, name, type of the right constructor, function whose laziness matches the call opcode and whose arity matches argc, thunk); every jump strictly forward to an instruction boundary inside the code; the typed abstract stack agrees on all paths, never underflows, matches each opcode's operand kinds, and has depth exactly 1 (of the thunk's / program's type) at the final return. Forward-only jumps + finite code imply at most one step per emitted instruction. non-trivial = programs with a jump, a call opcode or a thunk",
		Bound: "as the C03 corpus",
		Assumptions: []string{"operand layouts and stack effects per mnemonic are written from vm/opcode.go and the instruction's documented meaning (mc/ref/bc.go); opcode numbers are resolved by name through the hook"},
	}
}

// wideTree builds, without the lexer, a literal with n members.
func wideTree(kind string, n int) ast.Expr {
	one := func() ast.Expr { return ast.Num("1", pos.Unknown) }
	switch kind {
	case "list":
		els := make([]ast.Expr, n)
		for i := range els {
			els[i] = one()
		}
		return ast.Call(ast.Var("len", pos.Unknown), []ast.Expr{ast.List(els, pos.Unknown)}, pos.UnknownCol, pos.Unknown)
	case "map":
		ps := make([]ast.Pair, n)
		for i := range ps {
			ps[i] = ast.Pair{Key: ast.Num(fmt.Sprint(i), pos.Unknown), Val: one()}
		}
		return ast.Map(ps, pos.Unknown)
	case "obj":
		fs := make([]ast.Field, n)
		for i := range fs {
			fs[i] = ast.Field{Name: fmt.Sprintf("f%d", i), Val: one()}
		}
		return ast.Member(ast.Obj(fs, pos.Unknown), ast.Var("f0", pos.Unknown), pos.UnknownCol, pos.Unknown)
	case "thunk-list":
		els := make([]ast.Expr, n)
		for i := range els {
			els[i] = one()
		}
		return ast.Call(ast.Var("second", pos.Unknown), []ast.Expr{one(), ast.List(els, pos.Unknown)}, pos.UnknownCol, pos.Unknown)
	}
	return one()
}

func (c11) Generate(tier string, yield func(*engine.Case) bool) {
	for _, kind := range []string{"list", "map", "obj", "thunk-list"} {
		for _, n := range []int{255, 256, 257, 32767, 32768, 65534, 65535, 65536, 65537, 70000} {
			if kind == "map" && n > 40000 && n != 65536 {
				continue // 2n constants: the capacity boundary for maps is at n = 32767
			}
			if !yield(&engine.Case{Family: "wide-ast-" + kind, Key: fmt.Sprint(n), Args: []string{"wideast", kind, fmt.Sprint(n)}}) {
				return
			}
		}
	}
	c03{}.Generate(tier, func(c *engine.Case) bool {
		if len(c.Args) > 0 && c.Args[0] == "dyn" {
			cp := *c
			cp.Args = []string{"dynsrc"}
			cp.Key = "p" + c.Args[1]
			return yield(&cp)
		}
		return yield(c)
	})
}

func (c11) Run(c *engine.Case) *engine.Result {
	res := &engine.Result{Execs: 1}
	var src string
	env := real.EnvSpec{Rep: "raw"}
	h := real.StdHost()
	switch {
	case len(c.Args) > 0 && c.Args[0] == "src":
		src = c.Src
		var d srcData
		if len(c.Data) > 0 {
			_ = json.Unmarshal(c.Data, &d)
			if d.Env.Rep != "" {
				env = d.Env
			}
			if d.Host == "wide" {
				h = wideHost()
			}
		}
	case len(c.Args) > 0 && c.Args[0] == "dynsrc":
		return verifyDyn(c)
	case len(c.Args) > 0 && c.Args[0] == "wideast":
		var n int
		fmt.Sscan(c.Args[2], &n)
		code, accepted, refused, msg := real.CompileBytecodeAST(h, wideTree(c.Args[1], n))
		res.NonTrivial = true
		switch {
		case !accepted:
			res.Outcome = "rejected"
			res.Violations = append(res.Violations, vf("harness-wide-rejected", "%s %d: %s", c.Args[1], n, stable(msg)))
		case refused:
			res.Outcome = "capacity-refusal"
		case code == nil:
			res.Violations = append(res.Violations, vf("codegen-panic", "%s literal with %d members: %s", c.Args[1], n, stable(msg)))
		default:
			st := &ref.BCStats{}
			if err := ref.VerifyBC(real.ToBCProgram(code), real.BCEnvFor(env), nil, st, 0); err != nil {
				res.Violations = append(res.Violations, vf("bytecode-unsafe", "%s literal with %d members: %v", c.Args[1], n, err))
			}
			res.States = st.Instructions
			res.Outcome = "ok"
		}
		return res
	default:
		d := loadProg(c)
		src, env = d.Term.Render(), d.Env
	}
	code, accepted, refused, msg := real.CompileBytecode(h, src, env)
	switch {
	case !accepted:
		res.Outcome = "rejected"
		return res
	case refused:
		res.Outcome = "capacity-refusal"
		return res
	case code == nil:
		res.Outcome = "codegen-panic"
		res.Violations = append(res.Violations, vf("codegen-panic", "%s: code generation failed with %s (only the capacity assertion 'overflow' is a permitted refusal)", trunc200(src), stable(msg)))
		return res
	}
	st := &ref.BCStats{}
	err := ref.VerifyBC(real.ToBCProgram(code), real.BCEnvFor(env), nil, st, 0)
	res.NonTrivial = st.Jumps > 0 || st.Thunks > 0 || strings.Contains(src, "(")
	res.States = st.Instructions
	res.Outcome = fmt.Sprintf("ok instr=%d jumps=%d thunks=%d", bucket(st.Instructions), st.Jumps, st.Thunks)
	if err != nil {
		res.Outcome = "unsafe"
		res.Violations = append(res.Violations, vf("bytecode-unsafe", "%s: %v", trunc200(src), err))
	}
	return res
}

func bucket(n int) int {
	b := 1
	for b < n {
		b *= 2
	}
	return b
}

func trunc200(s string) string {
	if len(s) > 200 {
		return s[:200] + "…"
	}
	return s
}
