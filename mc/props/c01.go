package props

import (
	"encoding/json"

	"verif/mc/engine"
	"verif/mc/gen"
	"verif/mc/real"
	"verif/mc/ref"
)

// C01 — preservation: run-time values have the statically inferred type, component by component.
type c01 struct{}

func init() { engine.Register(c01{}) }

func (c01) ID() string { return "C01" }

func (c01) Meta(tier string) engine.Meta {
	d := "1 in full, depth 2 with one nested operand"
	if tier == "thorough" {
		d = "2 in full; 3 for number-typed programs in the raw representation"
	}
	return engine.Meta{
		Level: "model_checking",
		Rule:  "type-directed enumeration of all well-typed programs up to the depth bound over the object alphabet (object literals in every field permutation, as list elements, map values, branches and arguments of polymorphic calls, projected by member / subscript) × {raw, host map, host struct} environments whose object values are stored in both field orders, plus every program over a host object compiled against one field order and invoked with the other, plus one Callable per back end invoked over histories (<= 4 invocations) of environments whose objects alternate field order, list / map / object literals of 41..600 components (across the VM stack growth), host containers whose elements would differ in type, plus every program of the untyped depth-1, homogeneity and variable-of-each-type corpora of C05 that the real checker accepts; each on 4 back ends. Oracle: the real inferred type, the dynamic type of the result and of every component (own reader over exported fields) agree; no nil component. non-trivial = the program contains an object, list or map",
		Bound: "depth " + d + "; 2- and 3-field objects (all 2 / 6 permutations); containers of width <= 2",
		Assumptions: []string{"reading values through exported Type / V fields; a worker crash while reading is attributed to the program"},
	}
}

var tyO3 = gen.Obj(gen.F("a", gen.Num), gen.F("b", gen.Str), gen.F("c", gen.Bool))
var tyLO = gen.List(tyOAB)
var tyMSO = gen.Map(gen.Str, tyOAB)

func perms3() [][]int {
	return [][]int{{0, 1, 2}, {0, 2, 1}, {1, 0, 2}, {1, 2, 0}, {2, 0, 1}, {2, 1, 0}}
}

// objEnv: variables holding objects stored in both field orders.
func objEnv(rep string) real.EnvSpec {
	lo := ref.ListV(tyOAB, oab(1, "x"), oba(2, "y"))
	mo := ref.MapV(gen.Str, tyOAB, ref.StrV("k"), oba(3, "z"), ref.StrV("j"), oab(4, "w"))
	o3 := ref.ObjV([]string{"c", "a", "b"}, ref.BoolV(true), ref.NumV(7), ref.StrV("q"))
	b := []real.Binding{
		{Name: "p", V: oab(5, "p")},
		{Name: "q", V: oba(6, "q")},
		{Name: "lo", V: lo},
		{Name: "mo", V: mo},
		{Name: "o3", V: o3},
		{Name: "t", V: ref.BoolV(true)},
	}
	if rep != "map" {
		b = append(b, real.Binding{Name: "mb", V: ref.JustV(oba(8, "m"))}, real.Binding{Name: "mn", V: ref.NothingV(tyOAB)})
	}
	return real.EnvSpec{Rep: rep, Binds: b}
}

func objGrammar(rep string) *gen.Grammar {
	g := gen.NewGrammar()
	N, S, B := gen.Num, gen.Str, gen.Bool
	g.Atom(N, gen.NumT(0), gen.NumT(1))
	g.Atom(S, gen.StrT("k"), gen.StrT("s"))
	g.Atom(B, gen.VarT("t"), gen.BoolT(false))
	g.Atom(tyOAB, gen.VarT("p"), gen.VarT("q"),
		gen.ObjT([]string{"a", "b"}, gen.NumT(1), gen.StrT("x")),
		gen.ObjT([]string{"b", "a"}, gen.StrT("y"), gen.NumT(2)))
	g.Atom(tyLO, gen.VarT("lo"))
	g.Atom(tyMSO, gen.VarT("mo"))
	o3 := []*gen.Term{gen.VarT("o3")}
	names := []string{"a", "b", "c"}
	vals := []*gen.Term{gen.NumT(3), gen.StrT("z"), gen.BoolT(true)}
	for _, p := range perms3() {
		o3 = append(o3, gen.ObjT([]string{names[p[0]], names[p[1]], names[p[2]]}, vals[p[0]], vals[p[1]], vals[p[2]]))
	}
	g.Atom(tyO3, o3...)
	if rep != "map" {
		g.Atom(tyMbObj, gen.VarT("mb"), gen.VarT("mn"))
		fn(g, "get", tyOAB, tyMbObj, tyOAB)
	}
	// objects built from parts, in both written orders
	g.Prod("obj-ab", tyOAB, []*gen.Ty{N, S}, func(x []*gen.Term) *gen.Term { return gen.ObjT([]string{"a", "b"}, x[0], x[1]) })
	g.Prod("obj-ba", tyOAB, []*gen.Ty{S, N}, func(x []*gen.Term) *gen.Term { return gen.ObjT([]string{"b", "a"}, x[0], x[1]) })
	// containers of objects
	g.Prod("list1", tyLO, []*gen.Ty{tyOAB}, func(x []*gen.Term) *gen.Term { return gen.ListT(x[0]) })
	g.Prod("list2", tyLO, []*gen.Ty{tyOAB, tyOAB}, func(x []*gen.Term) *gen.Term { return gen.ListT(x[0], x[1]) })
	g.Prod("map1", tyMSO, []*gen.Ty{S, tyOAB}, func(x []*gen.Term) *gen.Term { return gen.MapT(x[0], x[1]) })
	g.Prod("map2", tyMSO, []*gen.Ty{tyOAB, tyOAB}, func(x []*gen.Term) *gen.Term {
		return gen.MapT(gen.StrT("k"), x[0], gen.StrT("j"), x[1])
	})
	fn(g, "union", tyLO, tyLO, tyLO)
	// polymorphic calls at object type
	fn(g, "if", tyOAB, B, tyOAB, tyOAB)
	g.Prod("ternary", tyOAB, []*gen.Ty{B, tyOAB, tyOAB}, func(x []*gen.Term) *gen.Term { return gen.Ternary(x[0], x[1], x[2]) })
	fn(g, "id", tyOAB, tyOAB)
	fn(g, "get", tyOAB, tyLO, N, tyOAB)
	fn(g, "get", tyOAB, tyMSO, S, tyOAB)
	g.Prod("second", tyOAB, []*gen.Ty{N, tyOAB}, func(x []*gen.Term) *gen.Term { return gen.CallT("second", x[0], x[1]) })
	g.Prod("sub-l", tyOAB, []*gen.Ty{tyLO, N}, func(x []*gen.Term) *gen.Term { return gen.SubT(x[0], x[1]) })
	g.Prod("sub-m", tyOAB, []*gen.Ty{tyMSO, S}, func(x []*gen.Term) *gen.Term { return gen.SubT(x[0], x[1]) })
	fn(g, "if", tyLO, B, tyLO, tyLO)
	// projections
	g.Prod("mem-a", N, []*gen.Ty{tyOAB}, func(x []*gen.Term) *gen.Term { return gen.MemT(x[0], "a") })
	g.Prod("mem-b", S, []*gen.Ty{tyOAB}, func(x []*gen.Term) *gen.Term { return gen.MemT(x[0], "b") })
	g.Prod("mem3-a", N, []*gen.Ty{tyO3}, func(x []*gen.Term) *gen.Term { return gen.MemT(x[0], "a") })
	g.Prod("mem3-b", S, []*gen.Ty{tyO3}, func(x []*gen.Term) *gen.Term { return gen.MemT(x[0], "b") })
	g.Prod("mem3-c", B, []*gen.Ty{tyO3}, func(x []*gen.Term) *gen.Term { return gen.MemT(x[0], "c") })
	fn(g, "if", tyO3, B, tyO3, tyO3)
	bin(g, "==", tyLO, tyLO, B)
	fn(g, "len", N, tyLO)
	bin(g, "+", N, N, N)
	bin(g, "+", S, S, S)
	return g
}

func (c01) Generate(tier string, yield func(*engine.Case) bool) {
	ok := true
	emit := func(c *engine.Case) {
		if ok && !yield(c) {
			ok = false
		}
	}
	c01MoreCases(emit)
	for _, rep := range []string{"raw", "struct", "map"} {
		g, env := objGrammar(rep), objEnv(rep)
		for _, ty := range []*gen.Ty{tyOAB, gen.Num, gen.Str, gen.Bool, tyLO, tyMSO, tyO3} {
			if tier == "thorough" {
				depth := 2
				if rep == "raw" && ty == gen.Num {
					depth = 3
				}
				g.Each(ty, depth, func(t *gen.Term) bool {
					emit(progCase("obj-"+rep, t, env, rep))
					return ok
				})
			} else {
				// quick: everything up to depth 1, plus every depth-2 composition with one nested operand
				g.Each(ty, 1, func(t *gen.Term) bool {
					emit(progCase("obj-"+rep, t, env, rep))
					return ok
				})
				g.EachOneDeep(ty, func(t *gen.Term) bool {
					emit(progCase("obj1-"+rep, t, env, rep))
					return ok
				})
			}
			if !ok {
				return
			}
		}
	}
	// every program of the C05 untyped / homogeneity / overload corpora that the REAL checker accepts
	// must also preserve its inferred type (ill-typed programs a broken checker lets through are
	// exactly where preservation fails)
	if ok {
		c05{}.Generate(tier, func(c *engine.Case) bool {
			switch c.Family {
			case "untyped-0", "untyped-1", "homogeneity", "var-of-each-type":
				cp := *c
				cp.Family = "accepted/" + c.Family
				cp.Args = []string{"c05"}
				emit(&cp)
			}
			return ok
		})
	}
	// host data whose Go field order differs from the compile-time sample
	for _, rep := range []string{"struct", "map", "raw"} {
		for _, compileFirst := range []bool{true, false} {
			a, b := oab(1, "x"), oba(2, "y")
			if !compileFirst {
				a, b = b, a
			}
			cenv := real.EnvSpec{Rep: rep, Binds: []real.Binding{{Name: "o", V: a}, {Name: "l", V: ref.ListV(tyOAB, a, b)}}}
			renv := real.EnvSpec{Rep: rep, Binds: []real.Binding{{Name: "o", V: b}, {Name: "l", V: ref.ListV(tyOAB, b, a)}}}
			o, l := gen.VarT("o"), gen.VarT("l")
			for _, t := range []*gen.Term{
				gen.MemT(o, "a"), gen.MemT(o, "b"), o, l,
				gen.Infix("+", gen.MemT(o, "a"), gen.NumT(1)), gen.Infix("+", gen.MemT(o, "b"), gen.StrT("!")),
				gen.MemT(gen.SubT(l, gen.NumT(0)), "a"), gen.MemT(gen.SubT(l, gen.NumT(1)), "b"),
				gen.ListT(o, gen.SubT(l, gen.NumT(0))), gen.MemT(gen.SubT(gen.ListT(o, gen.SubT(l, gen.NumT(1))), gen.NumT(1)), "a"),
				gen.MemT(gen.CallT("if", gen.BoolT(false), gen.ObjT([]string{"a", "b"}, gen.NumT(9), gen.StrT("n")), o), "a"),
				gen.MemT(gen.CallT("get", l, gen.NumT(1), o), "b"),
			} {
				src := t.Render()
				r := renv
				bb, _ := json.Marshal(progData{Term: t, Env: cenv, CallEnv: &r})
				tag := "ab→ba"
				if !compileFirst {
					tag = "ba→ab"
				}
				emit(&engine.Case{Family: "hostorder-" + rep, Key: tag + "|" + src, Src: src, Data: bb})
			}
		}
	}
}

func (c01) Run(c *engine.Case) *engine.Result {
	if len(c.Args) > 0 && c.Args[0] != "c05" {
		return runC01More(c)
	}
	if len(c.Args) > 0 && c.Args[0] == "c05" {
		var d c05Data
		if err := json.Unmarshal(c.Data, &d); err != nil {
			panic(err)
		}
		p := observe(d.Term, d.Env, real.StdHost(), real.Backends, true)
		res := &engine.Result{Execs: p.Execs, Outcome: p.outcomeSummary(), NonTrivial: p.RealTypeErr == "" && hasComposite(d.Term)}
		res.Violations = p.judgePreservation()
		return res
	}
	d := loadProg(c)
	h := real.StdHost()
	p := observe2(d.Term, d.Env, d.CallEnv, h, real.Backends, true)
	res := &engine.Result{Execs: p.Execs, Outcome: p.outcomeSummary()}
	res.NonTrivial = hasComposite(d.Term)
	res.Violations = p.judgePreservation()
	return res
}

func hasComposite(t *gen.Term) bool {
	switch t.Op {
	case "obj", "list", "map", "mem", "sub":
		return true
	case "var":
		return len(t.Name) >= 1 && t.Name != "t"
	}
	for _, a := range t.Args {
		if hasComposite(a) {
			return true
		}
	}
	return false
}
