package props

import (
	"fmt"
	"strings"

	"github.com/goghcrow/yae"
	"github.com/goghcrow/yae/val"

	"verif/mc/engine"
	"verif/mc/gen"
	"verif/mc/real"
	"verif/mc/ref"
)

// More C01 families: wide literals (every component present across the VM's stack growth),
// one Callable invoked over a HISTORY of environments whose objects alternate field order, and
// host containers whose elements would have different types.

var c01WideSizes = []int{41, 42, 43, 44, 85, 86, 100, 600}

func c01WideTerm(kind string, n int) *gen.Term {
	switch kind {
	case "list":
		xs := make([]*gen.Term, n)
		for i := range xs {
			xs[i] = gen.NumT(float64(i))
		}
		return gen.ListT(xs...)
	case "strlist":
		xs := make([]*gen.Term, n)
		for i := range xs {
			xs[i] = gen.StrT(fmt.Sprint("s", i))
		}
		return gen.ListT(xs...)
	case "map":
		xs := make([]*gen.Term, 0, 2*n)
		for i := 0; i < n; i++ {
			xs = append(xs, gen.StrT(fmt.Sprint("k", i)), gen.NumT(float64(i)))
		}
		return gen.MapT(xs...)
	case "obj":
		names := make([]string, n)
		xs := make([]*gen.Term, n)
		for i := range xs {
			names[i] = fmt.Sprint("f", i)
			xs[i] = gen.NumT(float64(i))
		}
		return gen.ObjT(names, xs...)
	case "objlist":
		xs := make([]*gen.Term, n)
		for i := range xs {
			if i%2 == 0 {
				xs[i] = gen.ObjT([]string{"a", "b"}, gen.NumT(float64(i)), gen.StrT("x"))
			} else {
				xs[i] = gen.ObjT([]string{"b", "a"}, gen.StrT("y"), gen.NumT(float64(i)))
			}
		}
		return gen.ListT(xs...)
	case "nestedlist":
		return gen.ListT(c01WideTerm("list", n), c01WideTerm("list", 2))
	}
	// "args": a literal below n-2 pending operands: 1 + (1 + (... + len([a,b])))
	t := gen.CallT("len", gen.ListT(gen.NumT(1), gen.NumT(2)))
	for i := 0; i < n; i++ {
		t = gen.Infix("+", gen.NumT(1), gen.GroupT(t))
	}
	return gen.ListT(t, gen.NumT(0))
}

var c01WideKinds = []string{"list", "strlist", "map", "obj", "objlist", "nestedlist", "args"}

func c01MoreCases(emit func(*engine.Case)) {
	for _, k := range c01WideKinds {
		for _, n := range c01WideSizes {
			emit(&engine.Case{Family: "wide-literal", Key: fmt.Sprintf("%s-%d", k, n), Args: []string{"wide", k, fmt.Sprint(n)}})
		}
	}
	for _, rep := range []string{"struct", "map", "raw"} {
		for pi := range c01HistProgs() {
			for _, h := range []string{"ab,ba", "ba,ab", "ab,ba,ab", "ab,ab,ba", "ba,ba,ab,ba"} {
				emit(&engine.Case{Family: "hostorder-history-" + rep, Key: fmt.Sprintf("p%d|%s", pi, h), Args: []string{"ohist", rep, fmt.Sprint(pi), h}})
			}
		}
	}
	for pi := range c01DynLazyProgs() {
		emit(&engine.Case{Family: "dynamic-lazy-calls", Key: fmt.Sprintf("p%d", pi), Args: []string{"dynlazy", fmt.Sprint(pi)}})
	}
	for pi := range c01SharedProgs() {
		for ei := 0; ei < 3; ei++ {
			for ej := 0; ej < 3; ej++ {
				if ei != ej {
					emit(&engine.Case{Family: "one-parse-two-compiles", Key: fmt.Sprintf("p%d|%d,%d", pi, ei, ej), Args: []string{"shared", fmt.Sprint(pi), fmt.Sprint(ei), fmt.Sprint(ej)}})
				}
			}
		}
	}
	for si, s := range c16ContainerShapes() {
		for vi := range c16Values(s) {
			emit(&engine.Case{Family: "host-containers", Key: fmt.Sprintf("%s|%d", s, vi), Args: []string{"hostcont", fmt.Sprint(si), fmt.Sprint(vi)}})
		}
	}
}

func c01HistProgs() []*gen.Term {
	o, l, c := gen.VarT("o"), gen.VarT("l"), gen.VarT("c")
	lit1 := gen.ObjT([]string{"a", "b"}, gen.NumT(9), gen.StrT("n"))
	lit2 := gen.ObjT([]string{"b", "a"}, gen.StrT("m"), gen.NumT(8))
	return []*gen.Term{
		gen.MemT(o, "a"), gen.MemT(o, "b"), o, gen.Infix("+", gen.MemT(o, "b"), gen.StrT("!")),
		gen.MemT(gen.SubT(l, gen.NumT(0)), "a"), gen.MemT(gen.SubT(l, gen.NumT(1)), "b"),
		gen.MemT(gen.CallT("if", c, lit1, lit2), "a"), gen.MemT(gen.CallT("if", c, lit1, lit2), "b"),
		gen.MemT(gen.CallT("if", c, o, lit2), "a"), gen.ListT(gen.MemT(o, "a"), gen.MemT(gen.SubT(l, gen.NumT(1)), "a")),
		gen.MemT(gen.SubT(gen.ListT(o, gen.SubT(l, gen.NumT(1))), gen.NumT(1)), "b"),
	}
}

func runC01More(c *engine.Case) *engine.Result {
	switch c.Args[0] {
	case "wide":
		var n int
		fmt.Sscan(c.Args[2], &n)
		t := c01WideTerm(c.Args[1], n)
		p := observe(t, real.EnvSpec{Rep: "raw"}, real.StdHost(), real.Backends, true)
		res := &engine.Result{Execs: p.Execs, Outcome: fmt.Sprintf("wide %s", c.Args[1]), NonTrivial: true}
		res.Violations = p.judgePreservation()
		for _, b := range real.Backends {
			if bo := p.B[b]; bo != nil && bo.Obs.Val == nil && !(strings.HasPrefix(string(b), "vm") && bo.Obs.CompileErr+bo.Obs.Panic == "overflow") &&
				!(b == real.VMCall && bo.Obs.RunErr == "over exec limit") {
				res.Violations = append(res.Violations, vf("wide-literal-fails", "a %s literal of %d components on %s: %s", c.Args[1], n, b, stable(bo.Outcome())))
			}
		}
		return res
	case "ohist":
		return runC01History(c)
	case "shared":
		return runC01Shared(c)
	case "dynlazy":
		var pi int
		fmt.Sscan(c.Args[1], &pi)
		h := real.StdHost()
		funs := h.EnvFuns()
		env := real.EnvSpec{Rep: "raw", Binds: []real.Binding{{Name: "n", V: ref.NumV(3)}, {Name: "s", V: ref.StrV("msg")}, {Name: "c", V: ref.BoolV(false)},
			{Name: "lzns", V: funs["lzns"]}, {Name: "lzif", V: funs["lzif"]}, {Name: "lz1", V: funs["lz1"]}}}
		p := observe(c01DynLazyProgs()[pi], env, h, real.Backends, true)
		res := &engine.Result{Execs: p.Execs, Outcome: p.outcomeSummary(), NonTrivial: true}
		res.Violations = p.judgePreservation()
		if p.RefErr != nil {
			res.Violations = append(res.Violations, vf("harness-generated-ill-typed", "%s: %s", p.Src, p.RefErr.Msg))
		}
		return res
	}
	return runC01HostContainer(c)
}

func runC01History(c *engine.Case) *engine.Result {
	res := &engine.Result{NonTrivial: true}
	rep := c.Args[1]
	var pi int
	fmt.Sscan(c.Args[2], &pi)
	prog := c01HistProgs()[pi]
	src := prog.Render()
	envOf := func(order string, step int) real.EnvSpec {
		a, b := oab(float64(step), "x"), oba(float64(step+10), "y")
		if order == "ba" {
			a, b = b, a
		}
		return real.EnvSpec{Rep: rep, Binds: []real.Binding{{Name: "o", V: a}, {Name: "l", V: ref.ListV(tyOAB, a, b)}, {Name: "c", V: ref.BoolV(step%2 == 0)}}}
	}
	hist := strings.Split(c.Args[3], ",")
	h := real.StdHost()
	cenv := envOf(hist[0], 0)
	ck := ref.NewChecker(h.RefFuns(), cenv.Types())
	wantT, terr := ck.Check(prog)
	if terr != nil {
		panic("harness: ill-typed history program " + src)
	}
	var outs []string
	for _, b := range real.Backends {
		e := real.NewEngine(b, h)
		carg, err := cenv.CompileArg()
		if err != nil {
			panic(err)
		}
		var cb yae.Callable
		func() {
			defer func() {
				if r := recover(); r != nil {
					err = fmt.Errorf("panic: %v", r)
				}
			}()
			cb, err = e.Compile(src, carg)
		}()
		res.Execs++
		if err != nil {
			res.Violations = append(res.Violations, vf("rejects-well-typed", "%s over %s environments: %v", src, rep, err))
			continue
		}
		for step, order := range hist {
			renv := envOf(order, step)
			arg, err := renv.CallArg()
			if err != nil {
				panic(err)
			}
			o := &real.Obs{}
			o.Invoke(cb, arg, h)
			res.Execs++
			res.States++
			label := fmt.Sprintf("%s [%s environments] on %s, invocation %d of field-order history %s", src, rep, b, step+1, c.Args[3])
			if o.Val == nil {
				res.Violations = append(res.Violations, vf("accepted-run-fails", "%s: %s%s", label, stable(o.RunErr), stable(o.Panic)))
				continue
			}
			rv, werr := real.FromVal(o.Val)
			if werr != nil {
				res.Violations = append(res.Violations, vf("value-illformed", "%s produced an ill-formed value: %v", label, werr))
				continue
			}
			if !gen.Equal(rv.T, wantT) {
				res.Violations = append(res.Violations, vf("value-type-mismatch", "%s: inferred %s, produced a value of type %s (%s)", label, wantT, rv.T, rv.Describe()))
				continue
			}
			ev := ref.NewEval(ck.Res, renv.Values())
			want, fail := ev.Run(prog)
			if fail == nil && !ref.Same(rv, want) {
				res.Violations = append(res.Violations, vf("value-type-mismatch", "%s: produced %s, the program denotes %s", label, rv.Describe(), want.Describe()))
			}
			outs = append(outs, rv.T.String())
		}
	}
	res.Outcome = strings.Join(outs, ",")
	return res
}

// runC01HostContainer: whatever the conversion accepts must be a well-formed value of one type.
func runC01HostContainer(c *engine.Case) *engine.Result {
	res := &engine.Result{NonTrivial: true}
	var si, vi int
	fmt.Sscan(c.Args[1], &si)
	fmt.Sscan(c.Args[2], &vi)
	s := c16ContainerShapes()[si]
	v := c16Values(s)[vi]
	gval := s.build(v).Interface()
	desc := fmt.Sprintf("%s value %s", s, v.str(s))
	progs := []string{"x"}
	switch s.K {
	case "slice":
		for i := range v.Elems {
			progs = append(progs, fmt.Sprintf("x[%d]", i), fmt.Sprintf("x[%d].p", i), fmt.Sprintf("[x[%d].p, x[0].p]", i))
		}
	case "map":
		for i := range v.Elems {
			k := []string{`""`, `"é日"`}[i%2]
			progs = append(progs, fmt.Sprintf("x[%s]", k), fmt.Sprintf("x[%s].p", k))
		}
	default:
		progs = append(progs, "x.in")
		if !v.Elems[0].Nil {
			for i := range v.Elems[0].Elems {
				progs = append(progs, fmt.Sprintf("x.in[%d].p", i))
			}
		}
	}
	acc := 0
	for _, src := range progs {
		for _, b := range real.Backends {
			o := real.RunGo(b, src, map[string]interface{}{"x": gval})
			res.Execs++
			if o.Val == nil {
				continue
			}
			acc++
			if _, werr := real.FromVal(o.Val); werr != nil {
				res.Violations = append(res.Violations, vf("value-illformed", "%s over host data %s on %s produced an ill-formed value: %v", src, desc, b, werr))
			}
		}
	}
	res.Outcome = fmt.Sprintf("accepted=%v", acc > 0)
	return res
}

// one parsed tree compiled twice, against two differently typed environments: each closure must
// keep producing values of the type inferred for ITS environment (overload resolution is per
// compilation, never a property of the shared tree).
func c01SharedProgs() []*gen.Term {
	x := gen.VarT("x")
	return []*gen.Term{
		gen.CallT("string", x), gen.Infix("+", x, x), gen.CallT("len", x), gen.ListT(gen.Infix("+", x, x), x), gen.ObjT([]string{"v", "w"}, gen.Infix("+", x, x), gen.CallT("string", x)),
		gen.CallT("if", gen.Infix("==", x, x), gen.Infix("+", x, x), x), gen.CallT("get", gen.ListT(x), gen.NumT(0), gen.Infix("+", x, x)), gen.Infix("==", gen.ListT(x), gen.ListT(gen.Infix("+", x, x))),
		gen.CallT("id", gen.Infix("+", x, x)), gen.CallT("second", x, gen.Infix("+", x, x)),
	}
}

func c01SharedEnv(i int) real.EnvSpec {
	v := []*ref.V{ref.NumV(2), ref.StrV("s"), ref.ListV(gen.Num, nums(1, 2)...)}[i]
	return real.EnvSpec{Rep: "raw", Binds: []real.Binding{{Name: "x", V: v}}}
}

func runC01Shared(c *engine.Case) *engine.Result {
	res := &engine.Result{NonTrivial: true}
	var pi, ei, ej int
	fmt.Sscan(c.Args[1], &pi)
	fmt.Sscan(c.Args[2], &ei)
	fmt.Sscan(c.Args[3], &ej)
	prog := c01SharedProgs()[pi]
	src := prog.Render()
	h := real.StdHost()
	type side struct {
		env  real.EnvSpec
		ck   *ref.Checker
		ty   *gen.Ty
		terr *ref.TypeErr
		term *gen.Term
	}
	mk := func(i int) *side {
		s := &side{env: c01SharedEnv(i)}
		s.ck = ref.NewChecker(h.RefFuns(), s.env.Types())
		s.term = prog.Clone()
		s.ty, s.terr = s.ck.Check(s.term)
		return s
	}
	var outs []string
	for _, b := range real.Backends {
		e := real.NewEngine(b, h)
		tree := e.Parse(src)
		sides := []*side{mk(ei), mk(ej)}
		closures := make([]func(*val.Val) (*val.Val, string), 2)
		for k, s := range sides {
			s := s
			var cl func(env *val.Env) *val.Val
			rejected := ""
			func() {
				defer func() {
					if r := recover(); r != nil {
						rejected = fmt.Sprint(r)
					}
				}()
				cl = e.CompileExpr(tree, s.env.RawTypeEnv())
			}()
			res.Execs++
			if (rejected == "") != (s.terr == nil) {
				res.Violations = append(res.Violations, vf("compile-accept-mismatch", "%s compiled from a shared parsed tree against %s on %s: accepted=%v, the rules say %v", src, fmtEnv(s.env), b, rejected == "", s.terr == nil))
			}
			if rejected == "" {
				closures[k] = func(*val.Val) (v *val.Val, fail string) {
					defer func() {
						if r := recover(); r != nil {
							fail = fmt.Sprint(r)
						}
					}()
					return cl(real.RuntimeEnv(h, s.env)), ""
				}
			}
		}
		// run first, second, first again
		for _, k := range []int{0, 1, 0} {
			if closures[k] == nil || sides[k].terr != nil {
				continue
			}
			v, fail := closures[k](nil)
			res.Execs++
			res.States++
			label := fmt.Sprintf("%s, one parsed tree compiled against %s and %s on %s, running the closure for %s", src, fmtEnv(sides[0].env), fmtEnv(sides[1].env), b, fmtEnv(sides[k].env))
			if fail != "" {
				ev := ref.NewEval(sides[k].ck.Res, sides[k].env.Values())
				if _, rf := ev.Run(sides[k].term); rf == nil {
					res.Violations = append(res.Violations, vf("accepted-run-fails", "%s: %s", label, stable(fail)))
				}
				continue
			}
			rv, werr := real.FromVal(v)
			if werr != nil {
				res.Violations = append(res.Violations, vf("value-illformed", "%s produced an ill-formed value: %v", label, werr))
				continue
			}
			if !gen.Equal(rv.T, sides[k].ty) {
				res.Violations = append(res.Violations, vf("value-type-mismatch", "%s: inferred %s, produced a value of type %s (%s)", label, sides[k].ty, rv.T, rv.Describe()))
			}
			outs = append(outs, rv.T.String())
		}
	}
	res.Outcome = strings.Join(outs, ",")
	return res
}

// lazy function values with parameters of different types, called through an expression callee
func c01DynLazyProgs() []*gen.Term {
	v, num := gen.VarT, gen.NumT
	pick := func(n string) *gen.Term { return gen.SubT(gen.ListT(v(n)), num(0)) }
	return []*gen.Term{
		gen.DCallT(pick("lzns"), gen.Infix("+", v("n"), num(1)), v("s")),
		gen.ListT(gen.DCallT(pick("lzns"), v("n"), gen.StrT("a")), num(1)),
		gen.ObjT([]string{"r", "t"}, gen.DCallT(pick("lzns"), v("n"), v("s")), v("s")),
		gen.DCallT(pick("lzif"), v("c"), num(1), gen.Infix("+", v("n"), num(1))),
		gen.ListT(gen.DCallT(pick("lzif"), gen.Prefix("!", v("c")), v("n"), num(0)), gen.DCallT(pick("lz1"), v("n"), num(9))),
		gen.Infix("+", gen.DCallT(gen.CallT("if", v("c"), v("lz1"), v("lz1")), v("n"), num(2)), gen.DCallT(pick("lzns"), num(4), gen.Infix("+", v("s"), v("s")))),
	}
}
