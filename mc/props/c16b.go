package props

import (
	"fmt"

	"github.com/goghcrow/yae"

	"verif/mc/engine"
	"verif/mc/gen"
	"verif/mc/real"
	"verif/mc/ref"
)

// Containers of structs whose pointer field is present in some elements and absent in others, and
// one Callable invoked first with a present and then with an absent pointer.

func c16ContainerShapes() []*shape {
	p := &shape{K: "ptr", Elem: &shape{K: "float64"}}
	st := &shape{K: "struct", Fields: []shapeField{{Tag: "p", S: p}, {Tag: "q", S: &shape{K: "int"}}}}
	stm := &shape{K: "struct", Fields: []shapeField{{Tag: "p", Maybe: true, S: p}, {Tag: "q", S: &shape{K: "int"}}}}
	return []*shape{
		{K: "slice", Elem: st}, {K: "map", Key: &shape{K: "string"}, Elem: st}, {K: "slice", Elem: &shape{K: "ptr", Elem: st}},
		{K: "slice", Elem: stm}, {K: "map", Key: &shape{K: "string"}, Elem: stm},
		{K: "struct", Fields: []shapeField{{Tag: "in", S: &shape{K: "slice", Elem: st}}}},
	}
}

// c16Values: containers of 0..2 elements whose pointer field is absent / present in every
// combination (hand-built: the generic value enumeration caps nested domains).
func c16Values(s *shape) []*gv {
	elem := func(present bool) *gv {
		p := &gv{Nil: true}
		if present {
			p = &gv{Elems: []*gv{{I: 0}}}
		}
		return &gv{Elems: []*gv{p, {I: 1}}}
	}
	wrapElem := func(e *gv, es *shape) *gv {
		if es.K == "ptr" {
			return &gv{Elems: []*gv{e}}
		}
		return e
	}
	var conts func(cs *shape) []*gv
	conts = func(cs *shape) []*gv {
		out := []*gv{{Nil: true}, {}}
		for _, a := range []bool{false, true} {
			out = append(out, &gv{Elems: []*gv{wrapElem(elem(a), cs.Elem)}})
			for _, b := range []bool{false, true} {
				out = append(out, &gv{Elems: []*gv{wrapElem(elem(a), cs.Elem), wrapElem(elem(b), cs.Elem)}})
			}
		}
		return out
	}
	if s.K == "struct" {
		var out []*gv
		for _, c := range conts(s.Fields[0].S) {
			out = append(out, &gv{Elems: []*gv{c}})
		}
		return out
	}
	return conts(s)
}

func c16ContainerCases(emit func(*engine.Case)) {
	for si, s := range c16ContainerShapes() {
		for vi := range c16Values(s) {
			emit(&engine.Case{Family: "mixed-presence-containers", Key: fmt.Sprintf("%s|%d", s, vi), Args: []string{"container", fmt.Sprint(si), fmt.Sprint(vi)}})
		}
	}
	for _, h := range [][]string{{"0", "2"}, {"0", "0", "2"}, {"1", "2", "0"}, {"2", "0"}, {"0", "2", "2"}} {
		for pi := 0; pi < 3; pi++ {
			emit(&engine.Case{Family: "nil-after-present", Key: fmt.Sprintf("p%d|%v", pi, h), Args: append([]string{"hist", "ptr", fmt.Sprint(pi)}, h...)})
		}
	}
}

func runC16Container(c *engine.Case) *engine.Result {
	res := &engine.Result{NonTrivial: true}
	var si, vi int
	fmt.Sscan(c.Args[1], &si)
	fmt.Sscan(c.Args[2], &vi)
	s := c16ContainerShapes()[si]
	v := c16Values(s)[vi]
	gval := s.build(v).Interface()
	// the value travels inside a map[string]interface{} environment, i.e. behind an interface
	want, convertible := (&shape{K: "iface"}).refConv(&gv{Dyn: s, Elems: []*gv{v}}, 0)
	desc := fmt.Sprintf("%s value %s", s, v.str(s))
	// programs that consume the pointer field of every element as a number
	var progs []string
	switch {
	case s.K == "slice":
		for i := range v.Elems {
			progs = append(progs, fmt.Sprintf("x[%d].p + 1", i), fmt.Sprintf("get(x[%d].p, 7) + 1", i))
		}
	case s.K == "map":
		for i := range v.Elems {
			k := []string{`""`, `"é日"`}[i%2]
			progs = append(progs, fmt.Sprintf("x[%s].p + 1", k), fmt.Sprintf("get(x[%s].p, 7) + 1", k))
		}
	default:
		if !v.Elems[0].Nil {
			for i := range v.Elems[0].Elems {
				progs = append(progs, fmt.Sprintf("x.in[%d].p + 1", i), fmt.Sprintf("get(x.in[%d].p, 7) + 1", i))
			}
		}
	}
	progs = append(progs, "len([x])")
	outs := 0
	for _, src := range progs {
		var got interface{}
		var err error
		pan := ""
		func() {
			defer func() {
				if r := recover(); r != nil {
					pan = fmt.Sprint(r)
				}
			}()
			got, err = yae.Eval(src, map[string]interface{}{"x": gval})
		}()
		res.Execs++
		if pan != "" {
			res.Violations = append(res.Violations, vf("absence-fails-at-run-time", "Eval(%q) over %s panicked: %s", src, desc, stable(pan)))
			continue
		}
		if !convertible {
			if err == nil {
				res.Violations = append(res.Violations, vf("optional-consumed-without-default", "Eval(%q) over %s returned %v: elements with a present and with an absent pointer have different types, the data is inconsistent and must be refused", src, desc, got))
			}
			continue
		}
		// convertible: judge with the reference checker / evaluator on the converted value
		env := real.EnvSpec{Rep: "raw", Binds: []real.Binding{{Name: "x", V: want}}}
		_ = env
		outs++
	}
	res.Outcome = fmt.Sprintf("convertible=%v progs=%d", convertible, len(progs))
	_ = gen.Num
	_ = ref.NumV
	return res
}
