package props

import (
	"math"
	"time"

	"verif/mc/gen"
	"verif/mc/ref"
)

var (
	tyOAB   = gen.Obj(gen.F("a", gen.Num), gen.F("b", gen.Str))
	tyOAC   = gen.Obj(gen.F("a", gen.Num), gen.F("c", gen.Str))
	tyOBA   = gen.Obj(gen.F("b", gen.Str), gen.F("a", gen.Num))
	tyLNum  = gen.List(gen.Num)
	tyLStr  = gen.List(gen.Str)
	tyLObj  = gen.List(tyOAB)
	tyMSN   = gen.Map(gen.Str, gen.Num)
	tyMNS   = gen.Map(gen.Num, gen.Str)
	tyMbNum = gen.Maybe(gen.Num)
	tyMbObj = gen.Maybe(tyOAB)
)

var t0 = time.Unix(1641092645, 0) // 2022-01-02 03:04:05 UTC

func nums(xs ...float64) []*ref.V {
	out := make([]*ref.V, len(xs))
	for i, x := range xs {
		out[i] = ref.NumV(x)
	}
	return out
}

func strs(xs ...string) []*ref.V {
	out := make([]*ref.V, len(xs))
	for i, x := range xs {
		out[i] = ref.StrV(x)
	}
	return out
}

func oab(a float64, b string) *ref.V { return ref.ObjV([]string{"a", "b"}, ref.NumV(a), ref.StrV(b)) }
func oac(a float64, c string) *ref.V { return ref.ObjV([]string{"a", "c"}, ref.NumV(a), ref.StrV(c)) }
func oba(a float64, b string) *ref.V { return ref.ObjV([]string{"b", "a"}, ref.StrV(b), ref.NumV(a)) }

// pool returns the boundary values of a type (full = the large sets).
func pool(t *gen.Ty, full bool) []*ref.V {
	switch t.Canon() {
	case "num":
		if full {
			return nums(gen.NumsFull()...)
		}
		return nums(gen.NumsSmall()...)
	case "str":
		if full {
			return strs(gen.StrsFull()...)
		}
		return strs(gen.StrsSmall()...)
	case "bool":
		return []*ref.V{ref.BoolV(true), ref.BoolV(false)}
	case "time":
		return []*ref.V{ref.TimeV(t0), ref.TimeV(t0.Add(time.Second)), ref.TimeV(time.Unix(0, 0)), ref.TimeV(time.Unix(1641092645, 0)),
			ref.TimeV(t0.Add(1500 * time.Millisecond)), ref.TimeV(t0.Add(time.Millisecond)), ref.TimeV(t0.Add(-time.Nanosecond))}
	case tyLNum.Canon():
		return []*ref.V{ref.ListV(gen.Num), ref.ListV(gen.Num, nums(1)...), ref.ListV(gen.Num, nums(1, 2)...), ref.ListV(gen.Num, nums(2, 1)...),
			ref.ListV(gen.Num, nums(1, 1, 2)...), ref.ListV(gen.Num, nums(0.5, -1)...), ref.ListV(gen.Num, nums(1e300, gen.Pow63, math.Copysign(0, -1))...),
			ref.ListV(gen.Num, nums(1, 2, 3)...), ref.ListV(gen.Num, nums(3, 1)...), ref.ListV(gen.Num, nums(3, 2, 1, 2, 3)...),
			// IEEE corner cases away from the first position
			ref.ListV(gen.Num, nums(1, math.NaN())...), ref.ListV(gen.Num, nums(3, 2, math.NaN(), 1)...), ref.ListV(gen.Num, nums(0, math.Copysign(0, -1))...), ref.ListV(gen.Num, nums(math.Copysign(0, -1), 0)...)}
	case tyLStr.Canon():
		return []*ref.V{ref.ListV(gen.Str), ref.ListV(gen.Str, strs("a")...), ref.ListV(gen.Str, strs("a", "b")...), ref.ListV(gen.Str, strs("b", "a", "a")...),
			ref.ListV(gen.Str, strs("a", "b", "c")...), ref.ListV(gen.Str, strs("c", "a")...)}
	case tyLObj.Canon():
		return []*ref.V{ref.ListV(tyOAB), ref.ListV(tyOAB, oab(1, "x")), ref.ListV(tyOAB, oab(1, "x"), oba(1, "x")), ref.ListV(tyOAB, oba(2, "y"), oab(1, "x")),
			ref.ListV(tyOBA, oba(1, "x")), ref.ListV(tyOBA, oba(1, "x"), oab(1, "x")), ref.ListV(tyOAB, oab(2, "y"), oba(1, "x"))}
	case tyMSN.Canon():
		return []*ref.V{ref.MapV(gen.Str, gen.Num), ref.MapV(gen.Str, gen.Num, ref.StrV("a"), ref.NumV(1)),
			ref.MapV(gen.Str, gen.Num, ref.StrV("a"), ref.NumV(1), ref.StrV("b"), ref.NumV(2)),
			ref.MapV(gen.Str, gen.Num, ref.StrV("b"), ref.NumV(2), ref.StrV("a"), ref.NumV(1))}
	case tyMNS.Canon():
		return []*ref.V{ref.MapV(gen.Num, gen.Str, ref.NumV(1), ref.StrV("x")),
			ref.MapV(gen.Num, gen.Str, ref.NumV(1), ref.StrV("x"), ref.NumV(0.5), ref.StrV("y"))}
	case tyMbNum.Canon():
		return []*ref.V{ref.NothingV(gen.Num), ref.JustV(ref.NumV(1))}
	case tyMbObj.Canon():
		return []*ref.V{ref.NothingV(tyOAB), ref.JustV(oab(1, "x")), ref.JustV(oba(1, "x"))}
	case tyOAB.Canon():
		return []*ref.V{oab(1, "x"), oba(1, "x"), oba(2, "y")}
	}
	return nil
}

// litTerm renders a reference value as a literal term, or nil when the language has no literal
// for it (non-finite numbers, instants, optionals, empty typed containers).
func litTerm(v *ref.V) *gen.Term {
	switch v.T.K {
	case gen.KNum:
		if v.N != v.N || math.IsInf(v.N, 0) {
			return nil
		}
		return gen.NumAtom(v.N)
	case gen.KStr:
		return gen.StrT(v.S)
	case gen.KBool:
		return gen.BoolT(v.B)
	case gen.KList:
		if len(v.L) == 0 {
			return nil // [] has element type ⊥, not this one
		}
		els := make([]*gen.Term, len(v.L))
		for i, e := range v.L {
			if els[i] = litTerm(e); els[i] == nil {
				return nil
			}
		}
		return gen.ListT(els...)
	case gen.KMap:
		if len(v.MK) == 0 {
			return nil
		}
		var kvs []*gen.Term
		for i := range v.MK {
			k, x := litTerm(v.MK[i]), litTerm(v.MV[i])
			if k == nil || x == nil {
				return nil
			}
			kvs = append(kvs, k, x)
		}
		return gen.MapT(kvs...)
	case gen.KObj:
		vals := make([]*gen.Term, len(v.OV))
		for i, e := range v.OV {
			if vals[i] = litTerm(e); vals[i] == nil {
				return nil
			}
		}
		return gen.ObjT(append([]string(nil), v.OF...), vals...)
	}
	return nil
}

func isSymbolic(name string) bool {
	c := name[0]
	return !(c == '_' || c >= 'a' && c <= 'z' || c >= 'A' && c <= 'Z' || c >= 0x80)
}

// callTerm builds name(args) in its natural notation: infix / prefix for symbolic operators.
func callTerm(name string, args ...*gen.Term) *gen.Term {
	if isSymbolic(name) {
		if len(args) == 2 {
			return gen.Infix(name, args[0], args[1])
		}
		if len(args) == 1 {
			return gen.Prefix(name, args[0])
		}
	}
	return gen.CallT(name, args...)
}
