package props

import (
	"fmt"
	"math"
	"strconv"
	"strings"
	"time"

	"verif/mc/engine"
	"verif/mc/gen"
	"verif/mc/real"
	"verif/mc/ref"
)

// C04 — operators and built-in functions compute their documented results.
type c04 struct{}

func init() { engine.Register(c04{}) }

func (c04) ID() string { return "C04" }

func (c04) Meta(tier string) engine.Meta {
	return engine.Meta{
		Level: "model_checking",
		Rule: "for every documented overload (polymorphic ones instantiated over {num,str,list[num],{a,b},maybe[num]} / map[str,num] / map[num,str]) the full grid of argument tuples from the per-type boundary pools, each as environment data (raw and host map; raw also with every argument read again after the call, {r: f(x0,x1), p0: x0, p1: x1}) and as literals; every comparison operator under !, not, !!, inside if / && / == over numbers, strings, instants and booleans; every boolean formula of depth <= 2 over three variables and ! && ||, bare and as condition of if / ?:, under all 8 assignments; 0 and -0 as map keys, lookup keys and set elements, NaN / signed zeros away from the first position of lists; pairs of numeric / string literals in one program that are equal, within the comparison tolerance or just outside it; every numeric literal text of <=5 characters over {0 1 9 a f x b o e E . + -} that the documented grammar accepts; every string escape; absolute date-time forms over a calendar grid; depth-2 compositions over the small alphabet (quick: every f(…,g(atoms),…) with one nested operand; thorough: all of depth 2). non-trivial = the case reaches a built-in (all but bare literals)",
		Bound: "grids: 24 numbers × 24 numbers per binary numeric overload, 12 strings, 7 lists, 4 maps …; literal texts up to 5 characters; compositions depth 2",
		Assumptions: []string{
			"numeric tolerance, truncating %, index truncation, rendering formats are the documented / README definitions re-implemented in mc/ref",
			"math.Pow / Round / regexp / time.Parse are shared standard-library code",
			"relative time forms are excluded (clock-dependent); % beyond ±2^63 is only compared between back ends (C03)",
		},
	}
}

var c04VarCands = map[string][]*gen.Ty{
	"a": {gen.Num, gen.Str, tyLNum, tyOAB, tyMbNum},
	"k": {gen.Str, gen.Num},
	"v": {gen.Num, gen.Str},
}

// instances yields every monomorphic instance of a signature over the candidate types.
func instances(s *ref.Sig, cands map[string][]*gen.Ty, yield func(params []*gen.Ty)) {
	var names []string
	seen := map[string]bool{}
	var walk func(t *gen.Ty)
	walk = func(t *gen.Ty) {
		if t.K == gen.KVar && !seen[t.Name] {
			seen[t.Name] = true
			names = append(names, t.Name)
		}
		for _, c := range t.Children() {
			walk(c)
		}
	}
	for _, p := range s.Params {
		walk(p)
	}
	var rec func(i int, b map[string]*gen.Ty)
	rec = func(i int, b map[string]*gen.Ty) {
		if i == len(names) {
			ps := make([]*gen.Ty, len(s.Params))
			for j, p := range s.Params {
				ps[j] = p.Subst(b)
			}
			yield(ps)
			return
		}
		for _, c := range cands[names[i]] {
			b[names[i]] = c
			rec(i+1, b)
		}
		delete(b, names[i])
	}
	rec(0, map[string]*gen.Ty{})
}

func (c04) Generate(tier string, yield func(*engine.Case) bool) {
	ok := true
	emit := func(c *engine.Case) { // sticky stop
		if ok && !yield(c) {
			ok = false
		}
	}
	// ---- (a) grids over every documented overload
	for _, s := range ref.BuiltIns().Sigs {
		if !ok {
			return
		}
		instances(s, c04VarCands, func(ps []*gen.Ty) {
			if !ok {
				return
			}
			pools := make([][]*ref.V, len(ps))
			for i, p := range ps {
				full := len(ps) <= 2
				if s.Name == "get" && p.K == gen.KNum && i == 1 {
					full = true
				}
				pools[i] = pool(p, full)
				if len(pools[i]) == 0 {
					return
				}
			}
			idx := make([]int, len(ps))
			for ok {
				args := make([]*ref.V, len(ps))
				for i := range ps {
					args[i] = pools[i][idx[i]]
				}
				// as environment data
				binds := make([]real.Binding, len(args))
				vars := make([]*gen.Term, len(args))
				for i, a := range args {
					n := fmt.Sprintf("x%d", i)
					binds[i] = real.Binding{Name: n, V: a}
					vars[i] = gen.VarT(n)
				}
				t := callTerm(s.Name, vars...)
				env := real.EnvSpec{Rep: "raw", Binds: binds}
				emit(progCase("grid-env", t, env, fmtEnv(env)))
				// the arguments read again after the call: a built-in must not write into its operands
				{
					names := []string{"r"}
					parts := []*gen.Term{t}
					for i, v := range vars {
						names = append(names, fmt.Sprintf("p%d", i))
						parts = append(parts, v)
					}
					emit(progCase("grid-reread", gen.ObjT(names, parts...), env, fmtEnv(env)))
				}
				hostOK := true
				for _, a := range args {
					if !real.HostRepresentable(a.T, true, "map") {
						hostOK = false
					}
				}
				if hostOK {
					env := real.EnvSpec{Rep: "map", Binds: binds}
					emit(progCase("grid-hostmap", t, env, fmtEnv(env)))
				}
				// as literals
				lits := make([]*gen.Term, len(args))
				litOK := true
				for i, a := range args {
					if lits[i] = litTerm(a); lits[i] == nil {
						litOK = false
					}
				}
				if litOK {
					emit(progCase("grid-lit", callTerm(s.Name, lits...), real.EnvSpec{Rep: "raw"}, ""))
				}
				j := len(idx) - 1
				for ; j >= 0; j-- {
					idx[j]++
					if idx[j] < len(pools[j]) {
						break
					}
					idx[j] = 0
				}
				if j < 0 {
					break
				}
			}
		})
	}
	// ---- subscripts and members over the pools
	for _, lt := range []*gen.Ty{tyLNum, tyLStr, tyLObj} {
		for _, l := range pool(lt, true) {
			for _, i := range nums(0, 1, 2, 0.5, 1.9, -0.5) {
				env := real.EnvSpec{Rep: "raw", Binds: []real.Binding{{Name: "l", V: l}, {Name: "i", V: i}}}
				emit(progCase("subscript", gen.SubT(gen.VarT("l"), gen.VarT("i")), env, fmtEnv(env)))
			}
		}
	}
	for _, m := range pool(tyMSN, true) {
		for _, k := range strs("a", "b", "c", "") {
			env := real.EnvSpec{Rep: "raw", Binds: []real.Binding{{Name: "m", V: m}, {Name: "k", V: k}}}
			emit(progCase("subscript", gen.SubT(gen.VarT("m"), gen.VarT("k")), env, fmtEnv(env)))
		}
	}
	for _, m := range pool(tyMNS, true) {
		for _, k := range nums(1, 0.5, 1.0000000001, 2) {
			env := real.EnvSpec{Rep: "raw", Binds: []real.Binding{{Name: "m", V: m}, {Name: "k", V: k}}}
			emit(progCase("subscript", gen.SubT(gen.VarT("m"), gen.VarT("k")), env, fmtEnv(env)))
		}
	}
	for _, o := range pool(tyOAB, true) {
		for _, f := range []string{"a", "b"} {
			for _, rep := range []string{"raw", "map", "struct"} {
				env := real.EnvSpec{Rep: rep, Binds: []real.Binding{{Name: "o", V: o}}}
				emit(progCase("member", gen.MemT(gen.VarT("o"), f), env, fmtEnv(env)))
			}
		}
	}
	// ---- (b) numeric literal forms
	alpha := []string{"0", "1", "9", "a", "f", "x", "b", "o", "e", "E", ".", "+", "-"}
	maxLen := 5
	if tier == "thorough" {
		maxLen = 6
	}
	var recLit func(s string)
	recLit = func(s string) {
		if !ok {
			return
		}
		if s != "" {
			if n, valid := refNumLiteral(s); valid {
				emit(progCase("numlit", gen.NumText(s, n), real.EnvSpec{Rep: "raw"}, ""))
			}
		}
		if len(s) == maxLen {
			return
		}
		for _, a := range alpha {
			recLit(s + a)
		}
	}
	recLit("")
	// ---- every boolean formula of depth <= 2 over three variables and ! && ||, bare and in condition
	// position of if / ?:, under all 8 assignments
	{
		A, B, C := gen.VarT("p"), gen.VarT("q"), gen.VarT("r")
		d0 := []*gen.Term{A, B, C}
		grow := func(prev []*gen.Term) []*gen.Term {
			out := append([]*gen.Term(nil), d0...)
			for _, x := range prev {
				out = append(out, gen.Prefix("!", gen.GroupT(x)))
			}
			for _, x := range prev {
				for _, y := range prev {
					out = append(out, gen.Infix("&&", gen.GroupT(x), gen.GroupT(y)), gen.Infix("||", gen.GroupT(x), gen.GroupT(y)))
				}
			}
			return out
		}
		d2 := grow(grow(d0))
		for bits := 0; bits < 8; bits++ {
			benv := real.EnvSpec{Rep: "raw", Binds: []real.Binding{{Name: "p", V: ref.BoolV(bits&1 != 0)}, {Name: "q", V: ref.BoolV(bits&2 != 0)}, {Name: "r", V: ref.BoolV(bits&4 != 0)}}}
			for _, f := range d2 {
				if f.Depth() < 2 && bits > 0 {
					// (atoms and depth-1 formulas appear again below deeper ones)
				}
				emit(progCase("condition-shapes", f, benv, fmt.Sprint(bits)))
				emit(progCase("condition-shapes", gen.CallT("if", f, gen.NumT(1), gen.NumT(2)), benv, fmt.Sprint(bits)))
				emit(progCase("condition-shapes", gen.Ternary(f, gen.NumT(1), gen.NumT(2)), benv, fmt.Sprint(bits)))
			}
		}
	}
	// ---- 0 and -0 are one number: as map keys, in lookups, in set functions
	{
		zenv := real.EnvSpec{Rep: "raw", Binds: []real.Binding{{Name: "nz", V: ref.NumV(math.Copysign(0, -1))}, {Name: "z", V: ref.NumV(0)}, {Name: "x", V: ref.NumV(-3)}}}
		v, num, str := gen.VarT, gen.NumT, gen.StrT
		m0 := gen.MapT(num(0), str("zero"))
		mz := gen.MapT(v("nz"), str("zero"))
		for _, t := range []*gen.Term{
			gen.CallT("get", m0, v("nz"), str("d")), gen.CallT("get", mz, num(0), str("d")), gen.CallT("get", mz, v("z"), str("d")), gen.CallT("isset", m0, v("nz")), gen.CallT("isset", mz, v("z")),
			gen.SubT(m0, v("nz")), gen.SubT(mz, num(0)), gen.SubT(m0, gen.Infix("*", v("x"), num(0))), gen.CallT("len", gen.MapT(num(0), str("a"), v("nz"), str("b"))),
			gen.Infix("==", gen.MapT(num(0), str("a")), gen.MapT(v("nz"), str("a"))), gen.Infix("==", v("z"), v("nz")), gen.CallT("len", gen.CallT("union", gen.ListT(v("z")), gen.ListT(v("nz")))),
			gen.CallT("len", gen.CallT("diff", gen.ListT(v("z")), gen.ListT(v("nz")))), gen.CallT("string", gen.MapT(v("nz"), num(1))), gen.CallT("string", v("nz")), gen.Infix("/", num(1), gen.CallT("min", gen.ListT(v("z"), v("nz")))),
			gen.Infix("/", num(1), gen.CallT("max", gen.ListT(v("nz"), v("z")))), gen.CallT("max", gen.ListT(num(3), num(2), gen.Infix("/", gen.Infix("*", v("x"), num(0)), num(0)))),
		} {
			emit(progCase("zero-keys", t, zenv, "Z"))
		}
	}
	// ---- every comparison operator under each negation, over numbers, strings, instants and booleans
	{
		t1 := ref.TimeV(t0)
		t2 := ref.TimeV(t0.Add(time.Second))
		for _, pr := range [][2]*ref.V{{ref.NumV(1), ref.NumV(2)}, {ref.NumV(2), ref.NumV(2)}, {ref.NumV(3), ref.NumV(2)}, {ref.StrV("a"), ref.StrV("b")}, {ref.StrV("b"), ref.StrV("b")},
			{t1, t2}, {t2, t2}, {t2, t1}, {ref.BoolV(true), ref.BoolV(false)}, {ref.BoolV(true), ref.BoolV(true)}} {
			env := real.EnvSpec{Rep: "raw", Binds: []real.Binding{{Name: "x", V: pr[0]}, {Name: "y", V: pr[1]}}}
			for _, op := range []string{"<", "<=", ">", ">=", "==", "!="} {
				cmp := gen.Infix(op, gen.VarT("x"), gen.VarT("y"))
				if _, err := ref.NewChecker(real.StdHost().RefFuns(), env.Types()).Check(cmp); err != nil {
					continue
				}
				for _, t := range []*gen.Term{gen.Prefix("!", gen.GroupT(cmp)), gen.Prefix("not", gen.GroupT(cmp)), gen.Prefix("!", gen.Prefix("!", gen.GroupT(cmp))),
					gen.CallT("if", gen.Prefix("!", gen.GroupT(cmp)), gen.NumT(1), gen.NumT(2)), gen.Infix("&&", gen.Prefix("!", gen.GroupT(cmp)), cmp), gen.Infix("==", gen.Prefix("!", gen.GroupT(cmp)), cmp)} {
					emit(progCase("negated-comparisons", t, env, fmtEnv(env)))
				}
			}
		}
	}
	// ---- two literals in ONE program that are equal, within the comparison tolerance, or just outside it
	for _, a := range []float64{0, 1, 2, 0.1, 1e9, -3} {
		for _, dlt := range []float64{0, 1e-10, 5e-10, 9.9e-10, 1e-9, 2e-9, -3e-10} {
			x, y := gen.NumAtom(a), gen.NumAtom(a+dlt)
			for _, t := range []*gen.Term{gen.Infix("-", y, x), gen.ListT(x, y), gen.CallT("string", gen.ListT(x, y)), gen.Infix("==", x, y),
				gen.Infix("*", gen.Infix("-", y, x), gen.NumT(1e10)), gen.MapT(x, gen.StrT("p"), y, gen.StrT("q")), gen.CallT("max", x, y),
				gen.ObjT([]string{"p", "q"}, x, y), gen.CallT("if", gen.BoolT(false), x, y)} {
				emit(progCase("literal-pairs", t, real.EnvSpec{Rep: "raw"}, ""))
			}
		}
	}
	for _, pr := range [][2]string{{"a", "a"}, {"a", "A"}, {"", " "}, {"é", "é"}, {"x", "x "}} {
		x, y := gen.StrT(pr[0]), gen.StrT(pr[1])
		for _, t := range []*gen.Term{gen.Infix("+", x, y), gen.ListT(x, y), gen.Infix("==", x, y), gen.MapT(x, gen.NumT(1), y, gen.NumT(2)), gen.CallT("if", gen.BoolT(false), x, y)} {
			emit(progCase("literal-pairs", t, real.EnvSpec{Rep: "raw"}, ""))
		}
	}
	// ---- string literal forms
	for _, sl := range []struct{ text, val string }{
		{`""`, ""}, {`"a"`, "a"}, {`"\""`, `"`}, {`"\\"`, `\`}, {`"\t"`, "\t"}, {`"\r"`, "\r"}, {`"\n"`, "\n"}, {`"\b"`, "\b"}, {`"\f"`, "\f"},
		{`"é"`, "é"}, {`"日x"`, "日x"}, {`"é日本"`, "é日本"}, {`"a\"b\\c"`, `a"b\c`}, {"`raw`", "raw"}, {"`a\\nb`", `a\nb`}, {"`\"q\"`", `"q"`}, {"``", ""},
		{`"'"`, "'"}, {`"a b"`, "a b"}, {`"😀"`, "😀"},
	} {
		t := &gen.Term{Op: "str", S: sl.val, Text: sl.text}
		emit(progCase("strlit", t, real.EnvSpec{Rep: "raw"}, ""))
		emit(progCase("strlit", gen.CallT("len", t), real.EnvSpec{Rep: "raw"}, ""))
	}
	// ---- (c) absolute date-time forms
	for _, y := range []int{1970, 2000, 2023, 2024} {
		for _, md := range []string{"01-01", "02-28", "02-29", "06-30", "12-31"} {
			if md == "02-29" && y%4 != 0 {
				continue
			}
			for _, hms := range []string{"", " 00:00:00", " 23:59:59", " 12:30:45"} {
				body := fmt.Sprintf("%04d-%s%s", y, md, hms)
				emit(progCase("timelit", gen.TimeT(body), real.EnvSpec{Rep: "raw"}, ""))
				emit(progCase("strtotime", gen.CallT("strtotime", gen.StrT(body)), real.EnvSpec{Rep: "raw"}, ""))
				if hms != "" {
					for _, z := range []string{"Z", "+08:00", "-05:30"} {
						iso := strings.Replace(body, " ", "T", 1) + z
						emit(progCase("timelit", gen.TimeT(iso), real.EnvSpec{Rep: "raw"}, ""))
						emit(progCase("strtotime", gen.CallT("strtotime", gen.StrT(iso)), real.EnvSpec{Rep: "raw"}, ""))
					}
				}
			}
		}
	}
	emit(progCase("timeops", gen.Infix("-", gen.TimeT("2022-01-02 00:00:10"), gen.TimeT("2022-01-02 00:00:00")), real.EnvSpec{Rep: "raw"}, ""))
	emit(progCase("timeops", gen.Infix("<", gen.TimeT("2022-01-02"), gen.TimeT("2022-01-03")), real.EnvSpec{Rep: "raw"}, ""))
	emit(progCase("timeops", gen.Infix("==", gen.TimeT("2022-01-02T08:00:00+08:00"), gen.TimeT("2022-01-02 00:00:00")), real.EnvSpec{Rep: "raw"}, ""))
	// ---- (d) depth-2 compositions over the small alphabet
	g, env := smallGrammar()
	for _, ty := range []*gen.Ty{gen.Num, gen.Bool, gen.Str, tyLNum} {
		if tier == "thorough" {
			g.Each(ty, 2, func(t *gen.Term) bool {
				emit(progCase("comp", t, env, "E"))
				return ok
			})
		} else {
			g.EachOneDeep(ty, func(t *gen.Term) bool {
				emit(progCase("comp1", t, env, "E"))
				return ok
			})
		}
	}
}

// refNumLiteral: the documented numeric literal grammar, matched by hand:
//   int   := 0 | [1-9][0-9]*
//   float := int (. digits)+ (e[+-]?digits)?   |   int (. digits)? (e[+-]?digits)+
//   0b(0|1[01]*)   0x(0|[1-9a-fA-F][0-9a-fA-F]*)   0o(0|[1-7][0-7]*)
// The whole text must be one literal. Returns its value.
func refNumLiteral(s string) (float64, bool) {
	digits := func(i int) int {
		j := i
		for j < len(s) && s[j] >= '0' && s[j] <= '9' {
			j++
		}
		return j
	}
	radix := func(prefix string, base int, first, rest string) (float64, bool) {
		if !strings.HasPrefix(s, prefix) {
			return 0, false
		}
		body := s[len(prefix):]
		if body == "" {
			return 0, false
		}
		if body != "0" {
			if !strings.ContainsRune(first, rune(body[0])) {
				return 0, false
			}
			for _, r := range body[1:] {
				if !strings.ContainsRune(rest, r) {
					return 0, false
				}
			}
		}
		n, err := strconv.ParseInt(body, base, 64)
		if err != nil {
			return 0, false
		}
		return float64(n), true
	}
	if n, ok := radix("0b", 2, "1", "01"); ok {
		return n, true
	}
	if n, ok := radix("0x", 16, "123456789abcdefABCDEF", "0123456789abcdefABCDEF"); ok {
		return n, true
	}
	if n, ok := radix("0o", 8, "1234567", "01234567"); ok {
		return n, true
	}
	// int part
	i := 0
	if len(s) == 0 {
		return 0, false
	}
	if s[0] == '0' {
		i = 1
	} else if s[0] >= '1' && s[0] <= '9' {
		i = digits(0)
	} else {
		return 0, false
	}
	fracs := 0
	for i < len(s) && s[i] == '.' {
		j := digits(i + 1)
		if j == i+1 {
			return 0, false
		}
		i = j
		fracs++
	}
	exps := 0
	for i < len(s) && (s[i] == 'e' || s[i] == 'E') {
		j := i + 1
		if j < len(s) && (s[j] == '+' || s[j] == '-') {
			j++
		}
		k := digits(j)
		if k == j {
			return 0, false
		}
		i = k
		exps++
	}
	if i != len(s) {
		return 0, false
	}
	// the grammar allows repeated fraction / exponent groups (1.2.3, 1e5e6): one token, but not a
	// number — those are compile errors; the reference only defines single groups.
	if fracs > 1 || exps > 1 {
		return 0, false
	}
	n, err := strconv.ParseFloat(s, 64)
	if err != nil {
		return 0, false
	}
	return n, true
}

func (c04) Run(c *engine.Case) *engine.Result {
	d := loadProg(c)
	h := real.StdHost()
	p := observe(d.Term, d.Env, h, real.Backends, false)
	res := &engine.Result{Execs: p.Execs, Outcome: p.outcomeSummary(), NonTrivial: d.Term.Op == "call" || d.Term.Op == "sub" || d.Term.Op == "mem" || c.Family == "numlit" || c.Family == "timelit" || c.Family == "literal-pairs" || c.Family == "grid-reread" || c.Family == "negated-comparisons" || c.Family == "zero-keys" || c.Family == "condition-shapes"}
	res.Violations = p.judgeValues()
	if p.RefErr != nil {
		// the generator only produces well-typed programs: a reference rejection is a harness defect
		res.Violations = append(res.Violations, vf("harness-generated-ill-typed", "%s: %s", p.Src, p.RefErr.Msg))
	}
	return res
}

var _ = time.Now
