package props

import (
	"fmt"
	"strings"

	"github.com/goghcrow/yae"
	"github.com/goghcrow/yae/fun"
	"github.com/goghcrow/yae/parser/oper"
	"github.com/goghcrow/yae/parser/ast"

	"verif/mc/engine"
	"verif/mc/gen"
	"verif/mc/real"
)

// C10 — syntactic sugar means exactly the call it stands for.
type c10 struct{}

func init() { engine.Register(c10{}) }

func (c10) ID() string { return "C10" }

func (c10) Meta(tier string) engine.Meta {
	return engine.Meta{
		Level: "model_checking",
		Rule: "structural half: all terms of depth <= 2 (thorough: depth 3 with one nested depth-2 operand) over 3 atoms (a variable, a number, a boolean literal) and 17 constructors — infix, prefix, ?:, method call with and without arguments, parentheses, plain call, subscript, member, list / map / object literals — i.e. every node kind nested in every operand position; each is rendered, parsed by the real parser and desugared: the result must equal the independently computed core form (op(x,y), op(x), if(c,a,b), f(o,args), e; receiver then arguments in source order), contain no sugar node, be a fixpoint of Desugar, carry the operator's column, and the input tree (deep snapshot incl. spans) must be unchanged. Semantic half: every well-typed program of the small-alphabet (one nested operand) and effects corpora is evaluated from its sugared source and from the explicit core tree built directly with the ast constructors and fed to Expr.CompileExpr: same outcome class, same value, same host-call trace on two back ends; plus paired source texts (c?a:b / if(c,a,b), o.f(x) / f(o,x), x + y / x. +(y), (e) / e, and sugar written without parentheses inside list / map / object literals, call arguments and subscripts), each also on an engine built with UseBuiltIn(false) and the same operators / functions registered by hand, and on engines with an additional identity translator registered before / after first use; callee family: sugar inside computed callees and their arguments (6 x 6 sugar forms x 8 callee shapes). non-trivial = terms containing at least one sugar node",
		Bound: "depth 2 (structural); depth 2 with one nested operand (semantic)",
		Assumptions: []string{"the expected core form is computed on the harness's own term type (mc/props/c10.go), never by the code under test"},
	}
}

type c10Ctor struct {
	arity int
	build func(x []*gen.Term) *gen.Term
}

func c10Ctors() []c10Ctor {
	return []c10Ctor{
		{2, func(x []*gen.Term) *gen.Term { return gen.Infix("+", x[0], x[1]) }},
		{2, func(x []*gen.Term) *gen.Term { return gen.Infix("<", x[0], x[1]) }},
		{2, func(x []*gen.Term) *gen.Term { return gen.Infix("&&", x[0], x[1]) }},
		{1, func(x []*gen.Term) *gen.Term { return gen.Prefix("-", x[0]) }},
		{1, func(x []*gen.Term) *gen.Term { return gen.Prefix("not", x[0]) }},
		{3, func(x []*gen.Term) *gen.Term { return gen.Ternary(x[0], x[1], x[2]) }},
		{2, func(x []*gen.Term) *gen.Term { return gen.Method("f", x[0], x[1]) }},
		{1, func(x []*gen.Term) *gen.Term { return gen.Method("g", x[0]) }},
		{1, func(x []*gen.Term) *gen.Term { return gen.GroupT(x[0]) }},
		{1, func(x []*gen.Term) *gen.Term { return gen.CallT("h", x[0]) }},
		{2, func(x []*gen.Term) *gen.Term { return gen.CallT("k", x[0], x[1]) }},
		{2, func(x []*gen.Term) *gen.Term { return gen.SubT(x[0], x[1]) }},
		{2, func(x []*gen.Term) *gen.Term { return gen.DCallT(x[0], x[1]) }}, // sugar in callee position
		{1, func(x []*gen.Term) *gen.Term { return gen.MemT(x[0], "m") }},
		{1, func(x []*gen.Term) *gen.Term { return gen.ListT(x[0]) }},
		{2, func(x []*gen.Term) *gen.Term { return gen.ListT(x[0], x[1]) }},
		{2, func(x []*gen.Term) *gen.Term { return gen.MapT(x[0], x[1]) }},
		{2, func(x []*gen.Term) *gen.Term { return gen.ObjT([]string{"p", "q"}, x[0], x[1]) }},
	}
}

// coreString: the expected desugared tree, in the textual form of ref.Node.String().
func coreString(t *gen.Term) string {
	kids := func(xs []*gen.Term) string {
		out := ""
		for _, x := range xs {
			out += " " + coreString(x)
		}
		return out
	}
	switch t.Op {
	case "num":
		return gen.FmtNum(t.N)
	case "str":
		return gen.QuoteStr(t.S)
	case "bool":
		return fmt.Sprint(t.B)
	case "var":
		return t.Name
	case "group":
		return coreString(t.Args[0])
	case "list":
		return "(list" + kids(t.Args) + ")"
	case "map":
		return "(map" + kids(t.Args) + ")"
	case "obj":
		out := "(obj"
		for i, a := range t.Args {
			out += " " + t.Fields[i] + ":" + coreString(a)
		}
		return out + ")"
	case "sub":
		return "(subscript" + kids(t.Args) + ")"
	case "mem":
		return "(member " + t.Name + " " + coreString(t.Args[0]) + " " + t.Name + ")"
	case "call":
		return "(call " + t.Name + kids(t.Args) + ")"
	case "dcall":
		// an identifier callee is a plain call; a member callee written without parentheses is the
		// method-call notation (receiver first)
		if t.Args[0].Op == "mem" {
			return "(call " + t.Args[0].Name + " " + coreString(t.Args[0].Args[0]) + kids(t.Args[1:]) + ")"
		}
		return "(call" + kids(t.Args) + ")"
	}
	return "?"
}

func hasSugar(t *gen.Term) bool {
	if t.Op == "group" || (t.Op == "call" && t.Not != "") {
		return true
	}
	for _, a := range t.Args {
		if hasSugar(a) {
			return true
		}
	}
	return false
}

func (c10) Generate(tier string, yield func(*engine.Case) bool) {
	ok := true
	atoms := []*gen.Term{gen.VarT("a"), gen.NumT(1), gen.BoolT(true)}
	ctors := c10Ctors()
	emitT := func(fam string, t *gen.Term) bool {
		if ok && !yield(progCase(fam, t, real.EnvSpec{Rep: "raw"}, "")) {
			ok = false
		}
		return ok
	}
	level := [][]*gen.Term{atoms}
	for d := 1; d <= 2; d++ {
		prev := level[d-1]
		cur := append([]*gen.Term(nil), atoms...)
		for _, c := range ctors {
			lists := make([][]*gen.Term, c.arity)
			for i := range lists {
				lists[i] = prev
			}
			if d == 2 && c.arity == 3 {
				// the ternary at depth 2: one nested operand per position (the full cube is thorough-only)
				if tier != "thorough" {
					for pos := 0; pos < 3; pos++ {
						l2 := [][]*gen.Term{atoms, atoms, atoms}
						l2[pos] = prev
						product(l2, func(args []*gen.Term) bool { cur = append(cur, c.build(args)); return true })
					}
					continue
				}
			}
			product(lists, func(args []*gen.Term) bool { cur = append(cur, c.build(args)); return true })
		}
		level = append(level, cur)
	}
	for _, t := range level[2] {
		if !emitT("structure", t) {
			return
		}
	}
	// callee positions three levels deep (the full depth-3 space is thorough-only)
	{
		a, one := gen.VarT("a"), gen.NumT(1)
		am := gen.MemT(a, "m")
		for _, t := range []*gen.Term{
			gen.DCallT(gen.GroupT(am), one), gen.DCallT(gen.GroupT(gen.GroupT(am)), one), gen.DCallT(gen.DCallT(gen.GroupT(am), one), one),
			gen.DCallT(gen.DCallT(am, one), one), gen.DCallT(gen.Ternary(a, a, a), one), gen.DCallT(gen.SubT(a, one), one), gen.DCallT(gen.GroupT(a), one),
			gen.DCallT(gen.Prefix("-", a), one), gen.DCallT(gen.SubT(gen.ListT(a), gen.NumT(0)), one), gen.DCallT(gen.GroupT(gen.MemT(gen.Infix("+", a, one), "m")), gen.Infix("+", a, one)),
			gen.MemT(gen.DCallT(gen.GroupT(am), one), "m"), gen.ListT(gen.DCallT(gen.GroupT(am), one)),
		} {
			if !emitT("structure-callee", t) {
				return
			}
		}
		// sugar INSIDE a computed callee (not parenthesised as a whole) and inside its arguments
		sugars := []*gen.Term{gen.Infix("+", a, one), gen.Prefix("-", a), gen.Ternary(a, a, one), gen.Method("f", a), gen.Method("f", a, one), gen.GroupT(a)}
		for _, x := range sugars {
			for _, y := range sugars {
				for _, t := range []*gen.Term{
					gen.DCallT(gen.SubT(a, x), y), gen.DCallT(gen.SubT(gen.ListT(x, a), y), one), gen.DCallT(gen.CallT("f", x), y),
					gen.DCallT(gen.DCallT(gen.SubT(a, x), one), y), gen.DCallT(gen.SubT(gen.SubT(a, x), y), one), gen.DCallT(gen.MemT(gen.SubT(a, x), "m"), y),
					gen.DCallT(gen.SubT(gen.MapT(x, y), one), one), gen.DCallT(gen.SubT(gen.MemT(gen.ObjT([]string{"k"}, x), "k"), y), one),
				} {
					if !emitT("structure-callee", t) {
						return
					}
				}
			}
		}
	}
	if tier == "thorough" {
		for _, c := range ctors {
			for pos := 0; pos < c.arity && ok; pos++ {
				lists := make([][]*gen.Term, c.arity)
				for i := range lists {
					lists[i] = atoms
				}
				lists[pos] = level[2]
				product(lists, func(args []*gen.Term) bool { return emitT("structure3", c.build(args)) })
			}
		}
	}
	// semantic half
	g, env := smallGrammar()
	for _, ty := range []*gen.Ty{gen.Num, gen.Bool, gen.Str, tyLNum} {
		g.Each(ty, 1, func(t *gen.Term) bool {
			if ok && !yield(progCase("semantic", t, env, "E")) {
				ok = false
			}
			return ok
		})
		g.EachOneDeep(ty, func(t *gen.Term) bool {
			if ok && !yield(progCase("semantic", t, env, "E")) {
				ok = false
			}
			return ok
		})
	}
	eg, eenv := effectsGrammar(false), effectsEnv()
	for _, ty := range []*gen.Ty{gen.Bool, gen.Num} {
		eg.Each(ty, 1, func(t *gen.Term) bool {
			n := 0
			if ok && !yield(progCase("semantic-effects", renumber(t, &n), eenv, "F")) {
				ok = false
			}
			return ok
		})
	}
	// paired source texts
	for _, p := range [][2]string{
		{"b ? n : 1", "if(b, n, 1)"}, {"s.len()", "len(s)"}, {"l.get(0, 9)", "get(l, 0, 9)"}, {"n + 1", "n. +(1)"}, {"(n)", "n"},
		{"((n + 1)) * 2", "n. +(1). *(2)"}, {"-n", "n. -()"}, {"l.len().string()", "string(len(l))"}, {"b ? b ? 1 : 2 : 3", "if(b, if(b, 1, 2), 3)"},
		{"s.len() + l.len()", "len(s). +(len(l))"},
		// sugar written WITHOUT parentheses inside every bracketing construct
		{"[b ? n : 1]", "[if(b, n, 1)]"}, {"[b ? 1 : 2, 3]", "[if(b, 1, 2), 3]"}, {"[3, b ? 1 : 2]", "[3, if(b, 1, 2)]"},
		{`[b ? "a" : "c" : 1]["a"]`, `[if(b, "a", "c"): 1]["a"]`}, {`["a" : b ? 1 : 2]["a"]`, `["a": if(b, 1, 2)]["a"]`},
		{"max(b ? 1 : 2, 3)", "max(if(b, 1, 2), 3)"}, {"{a: b ? 1 : 2}.a", "{a: if(b, 1, 2)}.a"}, {"l[b ? 0 : 1]", "l[if(b, 0, 1)]"},
		{"[n + 1 * 2]", "[n. +(1. *(2))]"}, {"-n + 1", "n. -(). +(1)"}, {"!b ? 1 : 2", "if(b. !(), 1, 2)"}, {"[-n, !b ? 1 : 2]", "[n. -(), if(b. !(), 1, 2)]"},
		{"[s.len(), n]", "[len(s), n]"}, {"[l.len() > 1 ? l[1] : 0]", "[if(len(l). >(1), l[1], 0)]"}, {"!b || b", "b. !(). ||(b)"}, {"m.get(\"a\", 0) == 1", "get(m, \"a\", 0). ==(1)"},
	} {
		if ok && !yield(&engine.Case{Family: "paired-sources", Key: p[0] + " ≡ " + p[1], Src: p[0], Args: []string{"pair", p[1]}}) {
			ok = false
		}
	}
}

func (c10) Run(c *engine.Case) *engine.Result {
	res := &engine.Result{}
	if len(c.Args) > 0 && c.Args[0] == "pair" {
		return c10Pair(c)
	}
	d := loadProg(c)
	src := d.Term.Render()
	res.NonTrivial = hasSugar(d.Term)
	bad := func(class, f string, a ...interface{}) {
		res.Violations = append(res.Violations, vf(class, f, a...))
	}
	if strings.HasPrefix(c.Family, "structure") {
		ops := real.ToOps(real.BuiltInOps())
		lx := real.NewLexer(ops)
		lr := lx.Lex(src)
		res.Execs++
		if lr.Err != "" {
			bad("harness-unparseable", "%s: %s", src, lr.Err)
			return res
		}
		pr := real.ParseToks(ops, lr.Toks)
		if pr.Err != "" {
			bad("harness-unparseable", "%s: %s", src, pr.Err)
			return res
		}
		before := real.ToNode(pr.Tree)
		snapshot := before.String() + "|" + strings.Join(before.Spans(), ",")
		d1, e1 := real.Desugar(pr.Tree)
		res.Execs++
		if e1 != "" {
			bad("desugar-panic", "%s: %s", src, e1)
			return res
		}
		after := real.ToNode(pr.Tree)
		if s2 := after.String() + "|" + strings.Join(after.Spans(), ","); s2 != snapshot {
			bad("desugar-mutates-input", "%s: the parsed tree changed while desugaring: before %s, after %s", src, before, after)
		}
		n1 := real.ToNode(d1)
		want := coreString(d.Term)
		res.Outcome = n1.String()
		if n1.String() != want {
			bad("desugar-wrong-core-form", "%s desugars to %s, it stands for %s", src, n1, want)
		}
		if k := sugarKind(d1); k != "" {
			bad("desugar-leaves-sugar", "%s: the desugared tree still contains a %s node", src, k)
		}
		d2, e2 := real.Desugar(d1)
		res.Execs++
		if e2 != "" {
			bad("desugar-panic", "%s (second pass): %s", src, e2)
			return res
		}
		n2 := real.ToNode(d2)
		if n2.String() != n1.String() || strings.Join(n2.Spans(), ",") != strings.Join(n1.Spans(), ",") {
			cls := "desugar-not-idempotent"
			if groupedMemberCallee(d.Term) {
				cls = "desugar-not-idempotent-grouped-member-callee"
			}
			bad(cls, "%s: desugaring the desugared tree %s gives %s", src, n1, n2)
		}
		// columns: a call that came from an operator carries the operator token's column
		if m := checkOpCols(pr.Tree, d1); m != "" {
			bad("desugar-loses-column", "%s: %s", src, m)
		}
		return res
	}
	// semantic half: sugared source vs explicit core tree
	h := real.StdHost()
	var outs []string
	for _, b := range []real.Backend{real.VMSwitch, real.Closure} {
		sug := real.Run(b, h, src, d.Env)
		so := &BackendObs{Obs: sug}
		if sug.Val != nil {
			so.Val, so.ValErr = real.FromVal(sug.Val)
		}
		strace := strings.Join(sug.Trace, ";")
		exp := real.RunExplicit(b, h, real.ToExplicitAST(d.Term), d.Env)
		eo := &BackendObs{Obs: exp}
		if exp.Val != nil {
			eo.Val, eo.ValErr = real.FromVal(exp.Val)
		}
		res.Execs += 2
		outs = append(outs, so.Outcome())
		if so.Outcome() != eo.Outcome() {
			bad("sugar-changes-meaning", "%s on %s gives %s, the explicit calls %s give %s", src, b, so.Outcome(), coreString(d.Term), eo.Outcome())
		} else if strace != strings.Join(exp.Trace, ";") {
			bad("sugar-changes-evaluation-order", "%s on %s: host calls [%s], the explicit calls give [%s]", src, b, strace, strings.Join(exp.Trace, ";"))
		}
	}
	res.Outcome = strings.Join(outs, ";")
	return res
}

// handAssembled: an engine that does not load the built-ins by itself and gets the very same
// operators and functions registered by hand; it must read sugar exactly like the default engine.
func handAssembled(b real.Backend) *yae.Expr {
	return yae.NewExpr().UseCompiler(b.Compiler()).UseBuiltIn(false).RegisterOperator(oper.BuiltIn()...).RegisterFun(fun.BuiltIn()...)
}

// withIdentityTranslator: a default engine with one more translator (the identity) registered
// before its first use, or after it; sugar must mean the same on both.
func withIdentityTranslator(b real.Backend, afterFirstUse bool) *yae.Expr {
	e := yae.NewExpr().UseCompiler(b.Compiler())
	id := func(x ast.Expr) ast.Expr { return x }
	if afterFirstUse {
		_, _ = e.Compile("1", map[string]interface{}{})
	}
	return e.RegisterTranslator(id)
}

func c10Pair(c *engine.Case) *engine.Result {
	res := &engine.Result{NonTrivial: true}
	_, env := smallGrammar()
	env.Binds = append(env.Binds, real.Binding{Name: "b", V: pool(gen.Bool, false)[0]})
	h := real.StdHost()
	for _, b := range real.Backends {
		x := &BackendObs{Obs: real.Run(b, h, c.Src, env)}
		y := &BackendObs{Obs: real.Run(b, h, c.Args[1], env)}
		carg, err1 := env.CompileArg()
		varg, err2 := env.CallArg()
		if err1 == nil && err2 == nil {
			z := &BackendObs{Obs: real.RunOn(handAssembled(b), c.Src, carg, varg)}
			res.Execs++
			if z.Obs.Val != nil {
				z.Val, z.ValErr = real.FromVal(z.Obs.Val)
			}
			if x.Obs.Val != nil {
				x.Val, x.ValErr = real.FromVal(x.Obs.Val)
			}
			if x.Outcome() != z.Outcome() {
				res.Violations = append(res.Violations, vf("sugar-changes-meaning", "%s gives %s on the default engine but %s on an engine with the same operators and functions registered by hand (%s)", c.Src, x.Outcome(), z.Outcome(), b))
			}
			for _, after := range []bool{false, true} {
				w := &BackendObs{Obs: real.RunOn(withIdentityTranslator(b, after), c.Src, carg, varg)}
				res.Execs++
				if w.Obs.Val != nil {
					w.Val, w.ValErr = real.FromVal(w.Obs.Val)
				}
				if x.Outcome() != w.Outcome() {
					res.Violations = append(res.Violations, vf("sugar-changes-meaning", "%s gives %s on the default engine but %s on an engine with an additional identity translator (registered after first use: %v) (%s)", c.Src, x.Outcome(), w.Outcome(), after, b))
				}
			}
		}
		res.Execs += 2
		if x.Obs.Val != nil {
			x.Val, x.ValErr = real.FromVal(x.Obs.Val)
		}
		if y.Obs.Val != nil {
			y.Val, y.ValErr = real.FromVal(y.Obs.Val)
		}
		res.Outcome = x.Outcome()
		if x.Outcome() != y.Outcome() {
			res.Violations = append(res.Violations, vf("sugar-changes-meaning", "%s gives %s but %s gives %s on %s", c.Src, x.Outcome(), c.Args[1], y.Outcome(), b))
		}
		if x.Obs.CompileErr != "" {
			res.Violations = append(res.Violations, vf("harness-pair-rejected", "%s: %s", c.Src, x.Obs.CompileErr))
		}
	}
	return res
}

// sugarKind reports a sugar node kind present in a real tree ("" = none).
func sugarKind(e ast.Expr) string {
	found := ""
	var walk func(x ast.Expr)
	walk = func(x ast.Expr) {
		if found != "" || x == nil {
			return
		}
		switch n := x.(type) {
		case *ast.UnaryExpr:
			found = "unary"
		case *ast.BinaryExpr:
			found = "binary"
		case *ast.TenaryExpr:
			found = "ternary"
		case *ast.GroupExpr:
			found = "group"
		case *ast.ListExpr:
			for _, el := range n.Elems {
				walk(el)
			}
		case *ast.MapExpr:
			for _, p := range n.Pairs {
				walk(p.Key)
				walk(p.Val)
			}
		case *ast.ObjExpr:
			for _, f := range n.Fields {
				walk(f.Val)
			}
		case *ast.CallExpr:
			walk(n.Callee)
			for _, a := range n.Args {
				walk(a)
			}
		case *ast.SubscriptExpr:
			walk(n.Var)
			walk(n.Idx)
		case *ast.MemberExpr:
			walk(n.Obj)
		}
	}
	walk(e)
	return found
}

// groupedMemberCallee: the term calls a parenthesised member, (o.m)(x) — not produced by this
// alphabet (calls always have identifier callees), kept for classification.
func groupedMemberCallee(t *gen.Term) bool {
	if t.Op == "dcall" {
		c := t.Args[0]
		for c.Op == "group" {
			c = c.Args[0]
			if c.Op == "mem" {
				return true
			}
		}
	}
	for _, a := range t.Args {
		if groupedMemberCallee(a) {
			return true
		}
	}
	return false
}

// checkOpCols: every Unary / Binary / Ternary node of the parsed tree must reappear as a call whose
// debug column is the operator token's column.
func checkOpCols(cst, core ast.Expr) string {
	var want []int
	var walk func(x ast.Expr)
	walk = func(x ast.Expr) {
		switch n := x.(type) {
		case *ast.UnaryExpr:
			want = append(want, n.IdentExpr.Pos.Col)
			walk(n.LHS)
		case *ast.BinaryExpr:
			want = append(want, n.IdentExpr.Pos.Col)
			walk(n.LHS)
			walk(n.RHS)
		case *ast.TenaryExpr:
			want = append(want, n.IdentExpr.Pos.Col)
			walk(n.Left)
			walk(n.Mid)
			walk(n.Right)
		case *ast.GroupExpr:
			walk(n.SubExpr)
		case *ast.ListExpr:
			for _, el := range n.Elems {
				walk(el)
			}
		case *ast.MapExpr:
			for _, p := range n.Pairs {
				walk(p.Key)
				walk(p.Val)
			}
		case *ast.ObjExpr:
			for _, f := range n.Fields {
				walk(f.Val)
			}
		case *ast.CallExpr:
			if m, ok := n.Callee.(*ast.MemberExpr); ok {
				want = append(want, int(n.DBGCol))
				walk(m.Obj)
			} else {
				want = append(want, int(n.DBGCol))
				walk(n.Callee)
			}
			for _, a := range n.Args {
				walk(a)
			}
		case *ast.SubscriptExpr:
			walk(n.Var)
			walk(n.Idx)
		case *ast.MemberExpr:
			walk(n.Obj)
		}
	}
	walk(cst)
	var got []int
	var walk2 func(x ast.Expr)
	walk2 = func(x ast.Expr) {
		switch n := x.(type) {
		case *ast.CallExpr:
			got = append(got, int(n.DBGCol))
			if _, isIdent := n.Callee.(*ast.IdentExpr); !isIdent {
				walk2(n.Callee)
			}
			for _, a := range n.Args {
				walk2(a)
			}
		case *ast.ListExpr:
			for _, el := range n.Elems {
				walk2(el)
			}
		case *ast.MapExpr:
			for _, p := range n.Pairs {
				walk2(p.Key)
				walk2(p.Val)
			}
		case *ast.ObjExpr:
			for _, f := range n.Fields {
				walk2(f.Val)
			}
		case *ast.SubscriptExpr:
			walk2(n.Var)
			walk2(n.Idx)
		case *ast.MemberExpr:
			walk2(n.Obj)
		}
	}
	walk2(core)
	if fmt.Sprint(want) != fmt.Sprint(got) {
		return fmt.Sprintf("operator / call columns in source order are %v, the desugared calls carry %v", want, got)
	}
	return ""
}
