package ref

import (
	"math"
	"regexp"
	"strings"
	"time"
	"unicode/utf8"

	"verif/mc/gen"
)

const epsilon = 1e-9

// the language's tolerance comparisons, written from their definitions
func numEQ(x, y float64) bool { return math.Abs(x-y) < epsilon }
func numNE(x, y float64) bool { return math.Abs(x-y) >= epsilon }
func numLT(x, y float64) bool { return x < y && numNE(x, y) }
func numLE(x, y float64) bool { return x <= y || numEQ(x, y) }
func numGT(x, y float64) bool { return x > y && numNE(x, y) }
func numGE(x, y float64) bool { return x >= y || numEQ(x, y) }

// LangEqual is the language's == on values of one type (tolerance on numbers, instants by absolute
// time, objects by field name, maps by key identity).
func LangEqual(a, b *V) bool {
	if !gen.Equal(a.T, b.T) {
		return false
	}
	switch a.T.K {
	case gen.KNum:
		return numEQ(a.N, b.N)
	case gen.KStr:
		return a.S == b.S
	case gen.KBool:
		return a.B == b.B
	case gen.KTime:
		return a.Tm.Equal(b.Tm)
	case gen.KList:
		if len(a.L) != len(b.L) {
			return false
		}
		for i := range a.L {
			if !LangEqual(a.L[i], b.L[i]) {
				return false
			}
		}
		return true
	case gen.KMap:
		if len(a.MK) != len(b.MK) {
			return false
		}
		for i, k := range a.MK {
			bv, ok := b.MapGet(k)
			if !ok || !LangEqual(a.MV[i], bv) {
				return false
			}
		}
		return true
	case gen.KObj:
		if len(a.OF) != len(b.OF) {
			return false
		}
		for i, n := range a.OF {
			bv, ok := b.Field(n)
			if !ok || !LangEqual(a.OV[i], bv) {
				return false
			}
		}
		return true
	case gen.KMaybe:
		if (a.P == nil) != (b.P == nil) {
			return false
		}
		return a.P == nil || LangEqual(a.P, b.P)
	}
	return false
}

func strict(name string, ps []*gen.Ty, ret *gen.Ty, f func(ev *Eval, a []*V) (*V, *Fail)) *Sig {
	return &Sig{Name: name, Params: ps, Ret: ret, Impl: f}
}

func lazy(name string, ps []*gen.Ty, ret *gen.Ty, f func(ev *Eval, a []Thunk) (*V, *Fail)) *Sig {
	return &Sig{Name: name, Params: ps, Ret: ret, Lazy: true, LazyImpl: f}
}

func nn(name string, f func(x, y float64) float64) *Sig {
	return strict(name, []*gen.Ty{gen.Num, gen.Num}, gen.Num, func(_ *Eval, a []*V) (*V, *Fail) { return NumV(f(a[0].N, a[1].N)), nil })
}

func n1(name string, f func(x float64) float64) *Sig {
	return strict(name, []*gen.Ty{gen.Num}, gen.Num, func(_ *Eval, a []*V) (*V, *Fail) { return NumV(f(a[0].N)), nil })
}

func cmpN(name string, f func(x, y float64) bool) *Sig {
	return strict(name, []*gen.Ty{gen.Num, gen.Num}, gen.Bool, func(_ *Eval, a []*V) (*V, *Fail) { return BoolV(f(a[0].N, a[1].N)), nil })
}

func cmpT(name string, f func(x, y time.Time) bool) *Sig {
	return strict(name, []*gen.Ty{gen.Time, gen.Time}, gen.Bool, func(_ *Eval, a []*V) (*V, *Fail) { return BoolV(f(a[0].Tm, a[1].Tm)), nil })
}

// BuiltIns returns the documented operator / function table (README order within one name).
func BuiltIns() *Funs {
	a, k, v := gen.Var("a"), gen.Var("k"), gen.Var("v")
	la := gen.List(a)
	mkv := gen.Map(k, v)
	N, S, B, T := gen.Num, gen.Str, gen.Bool, gen.Time
	f := &Funs{}
	f.Register(
		n1("+", func(x float64) float64 { return x }),
		nn("+", func(x, y float64) float64 { return x + y }),
		strict("+", []*gen.Ty{S, S}, S, func(_ *Eval, a []*V) (*V, *Fail) { return StrV(a[0].S + a[1].S), nil }),
		n1("-", func(x float64) float64 { return -x }),
		nn("-", func(x, y float64) float64 { return x - y }),
		strict("-", []*gen.Ty{T, T}, N, func(_ *Eval, a []*V) (*V, *Fail) { return NumV(a[0].Tm.Sub(a[1].Tm).Seconds()), nil }),
		nn("*", func(x, y float64) float64 { return x * y }),
		nn("/", func(x, y float64) float64 { return x / y }),
		strict("%", []*gen.Ty{N, N}, N, func(ev *Eval, a []*V) (*V, *Fail) {
			x, okx := TruncIndex(a[0].N)
			y, oky := TruncIndex(a[1].N)
			if !okx || !oky {
				ev.Unspec = true
				return nil, &Fail{Kind: "mod0", Msg: "operand outside the int64 range", Unspecified: true}
			}
			if y == 0 {
				return nil, fail("mod0", "%v %% %v", a[0].N, a[1].N)
			}
			if y == -1 {
				return NumV(0), nil // also for the most negative dividend
			}
			return NumV(float64(x % y)), nil
		}),
		nn("^", math.Pow),
		// equality
		strict("==", []*gen.Ty{B, B}, B, func(_ *Eval, a []*V) (*V, *Fail) { return BoolV(a[0].B == a[1].B), nil }),
		cmpN("==", numEQ),
		strict("==", []*gen.Ty{S, S}, B, func(_ *Eval, a []*V) (*V, *Fail) { return BoolV(a[0].S == a[1].S), nil }),
		cmpT("==", func(x, y time.Time) bool { return x.Equal(y) }),
		strict("==", []*gen.Ty{la, la}, B, func(_ *Eval, a []*V) (*V, *Fail) { return BoolV(LangEqual(a[0], a[1])), nil }),
		strict("==", []*gen.Ty{mkv, mkv}, B, func(_ *Eval, a []*V) (*V, *Fail) { return BoolV(LangEqual(a[0], a[1])), nil }),
		strict("!=", []*gen.Ty{B, B}, B, func(_ *Eval, a []*V) (*V, *Fail) { return BoolV(a[0].B != a[1].B), nil }),
		cmpN("!=", numNE),
		strict("!=", []*gen.Ty{S, S}, B, func(_ *Eval, a []*V) (*V, *Fail) { return BoolV(a[0].S != a[1].S), nil }),
		cmpT("!=", func(x, y time.Time) bool { return !x.Equal(y) }),
		strict("!=", []*gen.Ty{la, la}, B, func(_ *Eval, a []*V) (*V, *Fail) { return BoolV(!LangEqual(a[0], a[1])), nil }),
		strict("!=", []*gen.Ty{mkv, mkv}, B, func(_ *Eval, a []*V) (*V, *Fail) { return BoolV(!LangEqual(a[0], a[1])), nil }),
		// ordering
		cmpN("<", numLT), cmpT("<", func(x, y time.Time) bool { return x.Before(y) }),
		cmpN("<=", numLE), cmpT("<=", func(x, y time.Time) bool { return !x.After(y) }),
		cmpN(">", numGT), cmpT(">", func(x, y time.Time) bool { return x.After(y) }),
		cmpN(">=", numGE), cmpT(">=", func(x, y time.Time) bool { return !x.Before(y) }),
		// math
		n1("abs", math.Abs), n1("round", math.Round), n1("ceil", math.Ceil), n1("floor", math.Floor),
		nn("max", math.Max),
		strict("max", []*gen.Ty{gen.List(N)}, N, func(_ *Eval, a []*V) (*V, *Fail) { return NumV(fold(a[0].L, math.Max)), nil }),
		nn("min", math.Min),
		strict("min", []*gen.Ty{gen.List(N)}, N, func(_ *Eval, a []*V) (*V, *Fail) { return NumV(fold(a[0].L, math.Min)), nil }),
		// len
		strict("len", []*gen.Ty{la}, N, func(_ *Eval, a []*V) (*V, *Fail) { return NumV(float64(len(a[0].L))), nil }),
		strict("len", []*gen.Ty{mkv}, N, func(_ *Eval, a []*V) (*V, *Fail) { return NumV(float64(len(a[0].MK))), nil }),
		strict("len", []*gen.Ty{S}, N, func(_ *Eval, a []*V) (*V, *Fail) { return NumV(float64(utf8.RuneCountInString(a[0].S))), nil }),
		// conditionals and logic
		lazy("if", []*gen.Ty{B, a, a}, a, func(_ *Eval, t []Thunk) (*V, *Fail) {
			c, f := t[0]()
			if f != nil {
				return nil, f
			}
			if c.B {
				return t[1]()
			}
			return t[2]()
		}),
		lazy("&&", []*gen.Ty{B, B}, B, func(_ *Eval, t []Thunk) (*V, *Fail) {
			c, f := t[0]()
			if f != nil {
				return nil, f
			}
			if !c.B {
				return BoolV(false), nil
			}
			return t[1]()
		}),
		lazy("||", []*gen.Ty{B, B}, B, func(_ *Eval, t []Thunk) (*V, *Fail) {
			c, f := t[0]()
			if f != nil {
				return nil, f
			}
			if c.B {
				return BoolV(true), nil
			}
			return t[1]()
		}),
		strict("!", []*gen.Ty{B}, B, func(_ *Eval, a []*V) (*V, *Fail) { return BoolV(!a[0].B), nil }),
		// strings
		strict("match", []*gen.Ty{S, S}, B, func(_ *Eval, a []*V) (*V, *Fail) {
			ok, err := regexp.MatchString(a[0].S, a[1].S)
			if err != nil {
				return nil, fail("regex", "%v", err)
			}
			return BoolV(ok), nil
		}),
		strict("string", []*gen.Ty{a}, S, func(_ *Eval, a []*V) (*V, *Fail) { return StrV(a[0].Stringify()), nil }),
		// maps / optionals / lists
		strict("isset", []*gen.Ty{mkv, k}, B, func(_ *Eval, a []*V) (*V, *Fail) { _, ok := a[0].MapGet(a[1]); return BoolV(ok), nil }),
		strict("get", []*gen.Ty{gen.Maybe(a), a}, a, func(_ *Eval, a []*V) (*V, *Fail) {
			if a[0].P != nil {
				return a[0].P, nil
			}
			return a[1], nil
		}),
		strict("get", []*gen.Ty{la, N, a}, a, func(ev *Eval, a []*V) (*V, *Fail) {
			idx, spec := TruncIndex(a[1].N)
			if !spec {
				ev.Unspec = true
				return a[2], nil
			}
			if idx < 0 || idx >= int64(len(a[0].L)) {
				return a[2], nil
			}
			return a[0].L[idx], nil
		}),
		strict("get", []*gen.Ty{mkv, k, v}, v, func(_ *Eval, a []*V) (*V, *Fail) {
			if x, ok := a[0].MapGet(a[1]); ok {
				return x, nil
			}
			return a[2], nil
		}),
		strict("strtotime", []*gen.Ty{S}, T, func(ev *Eval, a []*V) (*V, *Fail) {
			tm, ok := ParseAbsTime(a[0].S)
			if !ok {
				ev.Unspec = true
			}
			return TimeV(tm), nil
		}),
		strict("intersect", []*gen.Ty{la, la}, la, func(_ *Eval, a []*V) (*V, *Fail) {
			out := &V{T: a[0].T}
			for _, x := range dedupe(a[0].L) {
				if y := member(x, a[1].L); y != nil {
					out.L = append(out.L, y)
				}
			}
			return out, nil
		}),
		strict("union", []*gen.Ty{la, la}, la, func(_ *Eval, a []*V) (*V, *Fail) {
			out := &V{T: a[0].T}
			out.L = append(out.L, dedupe(a[0].L)...)
			for _, y := range dedupe(a[1].L) {
				if member(y, a[0].L) == nil {
					out.L = append(out.L, y)
				}
			}
			return out, nil
		}),
		strict("diff", []*gen.Ty{la, la}, la, func(_ *Eval, a []*V) (*V, *Fail) {
			out := &V{T: a[0].T}
			for _, x := range dedupe(a[0].L) {
				if member(x, a[1].L) == nil {
					out.L = append(out.L, x)
				}
			}
			return out, nil
		}),
		strict("print", []*gen.Ty{a}, a, func(ev *Eval, a []*V) (*V, *Fail) {
			ev.Out = append(ev.Out, a[0].Render())
			return a[0], nil
		}),
	)
	return f
}

func fold(xs []*V, f func(x, y float64) float64) float64 {
	if len(xs) == 0 {
		return 0
	}
	m := xs[0].N
	for _, x := range xs[1:] {
		m = f(m, x.N)
	}
	return m
}

// set functions identify elements by their canonical rendering
func dedupe(xs []*V) []*V {
	seen := map[string]bool{}
	var out []*V
	for _, x := range xs {
		r := x.Render()
		if !seen[r] {
			seen[r] = true
			out = append(out, x)
		}
	}
	return out
}

func member(x *V, ys []*V) *V {
	r := x.Render()
	for _, y := range ys {
		if y.Render() == r {
			return y
		}
	}
	return nil
}

// ParseAbsTime understands the absolute date-time forms the harness uses; anything else is
// "unspecified" for the reference (relative forms depend on the clock).
func ParseAbsTime(s string) (time.Time, bool) {
	s = strings.TrimSpace(s)
	for _, layout := range []string{
		"2006-01-02 15:04:05", "2006-01-02", "2006-01-02T15:04:05Z07:00", "2006-01-02T15:04:05",
		"2006-01-02 15:04:05 -07:00", "2006-01-02 15:04", "2006/01/02", "2006/01/02 15:04:05",
	} {
		if t, err := time.ParseInLocation(layout, s, time.UTC); err == nil {
			return time.Unix(t.Unix(), 0), true
		}
	}
	return time.Time{}, false
}
