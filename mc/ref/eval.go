package ref

import (
	"fmt"
	"math"

	"verif/mc/gen"
)

// Fail is a predicted partial-operation failure.
type Fail struct {
	Kind string // index | key | mod0 | regex | host
	Msg  string
	// Unspecified: the language does not pin the behaviour (index beyond ±2^63, non-finite index):
	// the oracle only demands "a failure or a value", never an internal fault.
	Unspecified bool
}

func (f *Fail) String() string { return f.Kind + ": " + f.Msg }

func fail(kind, f string, a ...interface{}) *Fail { return &Fail{Kind: kind, Msg: fmt.Sprintf(f, a...)} }

// Thunk is a deferred operand.
type Thunk func() (*V, *Fail)

// Eval is the reference big-step evaluator.
type Eval struct {
	Res   Resolution
	Env   map[string]*V
	Trace []string // host-function invocations: name(rendered args)
	Out   []string // lines written by print
	Steps int
	// Unspec is set when the run touched behaviour the language does not pin down.
	Unspec bool
	// Rec: when RecOn, the values of variable / call / member / subscript terms in the order their
	// evaluation completes (what debug mode records).
	RecOn bool
	Rec   []RecEvent
}

// RecEvent is one completed evaluation of a recordable term.
type RecEvent struct {
	T *gen.Term
	V *V
}

func NewEval(res Resolution, env map[string]*V) *Eval { return &Eval{Res: res, Env: env} }

// Run evaluates t.
func (ev *Eval) Run(t *gen.Term) (*V, *Fail) {
	v, f := ev.run(t)
	if ev.RecOn && f == nil {
		switch t.Op {
		case "var", "call", "sub", "mem", "dcall":
			ev.Rec = append(ev.Rec, RecEvent{t, v})
		}
	}
	return v, f
}

func (ev *Eval) run(t *gen.Term) (*V, *Fail) {
	ev.Steps++
	switch t.Op {
	case "num":
		return NumV(t.N), nil
	case "str":
		return StrV(t.S), nil
	case "bool":
		return BoolV(t.B), nil
	case "time":
		tm, ok := ParseAbsTime(t.Text)
		if !ok {
			ev.Unspec = true
		}
		return TimeV(tm), nil
	case "group":
		return ev.Run(t.Args[0])
	case "var":
		v, ok := ev.Env[t.Name]
		if !ok {
			return nil, fail("internal", "unbound %s", t.Name)
		}
		return v, nil
	case "list":
		if len(t.Args) == 0 {
			return ListV(gen.Bot), nil
		}
		out := &V{}
		for _, a := range t.Args {
			v, f := ev.Run(a)
			if f != nil {
				return nil, f
			}
			out.L = append(out.L, v)
		}
		out.T = gen.List(out.L[0].T)
		return out, nil
	case "map":
		if len(t.Args) == 0 {
			return MapV(gen.Bot, gen.Bot), nil
		}
		out := &V{}
		for i := 0; i+1 < len(t.Args); i += 2 {
			k, f := ev.Run(t.Args[i])
			if f != nil {
				return nil, f
			}
			v, f := ev.Run(t.Args[i+1])
			if f != nil {
				return nil, f
			}
			if out.T == nil {
				out.T = gen.Map(k.T, v.T)
			}
			out.MapPut(k, v)
		}
		return out, nil
	case "obj":
		vals := make([]*V, len(t.Args))
		for i, a := range t.Args {
			v, f := ev.Run(a)
			if f != nil {
				return nil, f
			}
			vals[i] = v
		}
		return ObjV(append([]string(nil), t.Fields...), vals...), nil
	case "sub":
		x, f := ev.Run(t.Args[0])
		if f != nil {
			return nil, f
		}
		i, f := ev.Run(t.Args[1])
		if f != nil {
			return nil, f
		}
		if x.T.K == gen.KList {
			idx, spec := TruncIndex(i.N)
			if !spec {
				ev.Unspec = true
				return nil, &Fail{Kind: "index", Msg: "non-finite or huge index", Unspecified: true}
			}
			if idx < 0 || idx >= int64(len(x.L)) {
				return nil, fail("index", "index %v of %d elements", i.N, len(x.L))
			}
			return x.L[idx], nil
		}
		v, ok := x.MapGet(i)
		if !ok {
			return nil, fail("key", "key %s", i.Render())
		}
		return v, nil
	case "mem":
		o, f := ev.Run(t.Args[0])
		if f != nil {
			return nil, f
		}
		v, ok := o.Field(t.Name)
		if !ok {
			return nil, fail("internal", "no field %s", t.Name)
		}
		return v, nil
	case "dcall":
		// a call whose callee is an expression yielding a function value: the callee is evaluated
		// first, then the arguments (deferred for a lazy function, in order otherwise)
		fv, f := ev.Run(t.Args[0])
		if f != nil {
			return nil, f
		}
		if fv.Fn == nil {
			return nil, fail("internal", "callee is not a function value")
		}
		if fv.Fn.Lazy {
			ths := make([]Thunk, len(t.Args)-1)
			for i, a := range t.Args[1:] {
				a := a
				ths[i] = func() (*V, *Fail) { return ev.Run(a) }
			}
			return fv.Fn.LazyImpl(ev, ths)
		}
		args := make([]*V, len(t.Args)-1)
		for i, a := range t.Args[1:] {
			v, f := ev.Run(a)
			if f != nil {
				return nil, f
			}
			args[i] = v
		}
		return fv.Fn.Impl(ev, args)
	case "call":
		sig := ev.Res[t]
		if sig == nil {
			return nil, fail("internal", "unresolved call %s", t.Name)
		}
		if sig.Lazy {
			ths := make([]Thunk, len(t.Args))
			for i, a := range t.Args {
				a := a
				ths[i] = func() (*V, *Fail) { return ev.Run(a) }
			}
			return sig.LazyImpl(ev, ths)
		}
		args := make([]*V, len(t.Args))
		for i, a := range t.Args {
			v, f := ev.Run(a)
			if f != nil {
				return nil, f
			}
			args[i] = v
		}
		return sig.Impl(ev, args)
	}
	return nil, fail("internal", "bad term")
}

// TruncIndex converts a number to an index by truncation toward zero; it is specified only for
// finite values inside the int64 range.
func TruncIndex(n float64) (int64, bool) {
	if n != n || math.IsInf(n, 0) || math.Abs(n) >= 9223372036854775808.0 {
		return 0, false
	}
	return int64(n), true
}
