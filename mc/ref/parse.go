package ref

import (
	"fmt"
	"math"
	"strconv"
	"strings"
)

// Reference parser: operator-precedence (shunting-yard, two explicit stacks) for the operator
// part, plain recursive descent for the bracketed forms. Driven only by the operator declarations
// (symbol, binding power, fixity) and the fixed forms' documented powers.

const (
	bpCond   = 2.0
	bpCall   = 12.0
	bpMember = 13.0
)

// Node is a concrete syntax tree node with its exact source span.
type Node struct {
	Kind   string   // ident num str time bool list map obj group unary binary ternary call member subscript
	Text   string   // atom lexeme | operator symbol | member name
	Prefix bool     // unary: prefix (true) or postfix
	Kids   []*Node  // operands; list elements; map k,v,…; object values; call: callee,args…; member: obj; subscript: var,idx
	Names  []string // object field names
	Idx    int
	End    int
	Line   int
	Col    int
	OpIdx  int // operator / punctuation token position that positions the node (column for debug): -1 if none
	OpCol  int
}

// String renders the tree unambiguously (for comparison and messages).
func (n *Node) String() string {
	if n == nil {
		return "<nil>"
	}
	var b strings.Builder
	n.str(&b)
	return b.String()
}

func (n *Node) str(b *strings.Builder) {
	switch n.Kind {
	case "ident", "num", "str", "time", "bool":
		b.WriteString(n.Text)
		return
	}
	b.WriteString("(" + n.Kind)
	if n.Kind == "unary" {
		if n.Prefix {
			b.WriteString(" pre")
		} else {
			b.WriteString(" post")
		}
	}
	if n.Text != "" {
		b.WriteString(" " + n.Text)
	}
	for i, k := range n.Kids {
		b.WriteByte(' ')
		if n.Kind == "obj" {
			b.WriteString(n.Names[i] + ":")
		}
		k.str(b)
	}
	b.WriteByte(')')
}

// Spans lists "kind@idx-end/line:col" for every node in pre-order.
func (n *Node) Spans() []string {
	var out []string
	var walk func(x *Node)
	walk = func(x *Node) {
		out = append(out, fmt.Sprintf("%s@%d-%d/%d:%d", x.Kind, x.Idx, x.End, x.Line, x.Col))
		for _, k := range x.Kids {
			walk(k)
		}
	}
	walk(n)
	return out
}

type ParseErr struct{ Msg string }

func (e *ParseErr) Error() string { return e.Msg }

type opInfo struct {
	bp     float64
	fixity string
}

// Grammar tables built from the operator declarations: later declarations of the same symbol and
// role replace earlier ones; the built-in '?' '.' '(' '[' infix rules are installed last.
type Table struct {
	prefix map[string]opInfo
	infix  map[string]opInfo // infixl / infixr / infixn / postfix and the fixed forms
}

func NewTable(ops []Op) *Table {
	t := &Table{map[string]opInfo{}, map[string]opInfo{}}
	// stable sort by decreasing length, as registration does (only matters for duplicates)
	sorted := append([]Op(nil), ops...)
	for i := 1; i < len(sorted); i++ {
		for j := i; j > 0 && len(sorted[j].Sym) > len(sorted[j-1].Sym); j-- {
			sorted[j], sorted[j-1] = sorted[j-1], sorted[j]
		}
	}
	for _, o := range sorted {
		switch o.Fixity {
		case "prefix":
			t.prefix[o.Sym] = opInfo{o.BP, o.Fixity}
		case "infixl", "infixr", "infixn", "postfix":
			t.infix[o.Sym] = opInfo{o.BP, o.Fixity}
		}
	}
	t.infix["?"] = opInfo{bpCond, "ternary"}
	t.infix["."] = opInfo{bpMember, "member"}
	t.infix["("] = opInfo{bpCall, "call"}
	t.infix["["] = opInfo{bpMember, "subscript"}
	return t
}

// prev: the largest binding power (float32 grid, like the declarations) below bp.
func prevBP(bp float64) float64 {
	return float64(math.Nextafter32(float32(bp), float32(math.Inf(-1))))
}

type stackOp struct {
	kind string // prefix | binary | ternary
	tok  Tok
	rbp  float64
	info opInfo
	cond *Node
	mid  *Node
}

type rparser struct {
	t    *Table
	toks []Tok
	pos  int
}

var eofTok = Tok{Kind: "<eof>", Lexeme: "<END-OF-FILE>", Idx: -1, End: -1, Line: -1, Col: -1}

func (p *rparser) peek() Tok {
	if p.pos >= len(p.toks) {
		return eofTok
	}
	return p.toks[p.pos]
}

func (p *rparser) next() Tok {
	t := p.peek()
	if p.pos < len(p.toks) {
		p.pos++
	}
	return t
}

func (p *rparser) expect(kind string) (Tok, *ParseErr) {
	t := p.next()
	if t.Kind != kind {
		return t, &ParseErr{fmt.Sprintf("expect %s actual %s", kind, t.Lexeme)}
	}
	return t, nil
}

// Parse parses a complete token sequence.
func Parse(toks []Tok, ops []Op) (*Node, *ParseErr) {
	p := &rparser{t: NewTable(ops), toks: toks}
	n, err := p.expr()
	if err != nil {
		return nil, err
	}
	if p.pos < len(p.toks) {
		return nil, &ParseErr{"trailing " + p.peek().Lexeme}
	}
	return n, nil
}

func span(n *Node, first Tok, lastEnd int) *Node {
	n.Idx, n.Line, n.Col, n.End = first.Idx, first.Line, first.Col, lastEnd
	return n
}

func spanFromNode(n *Node, first *Node, lastEnd int) *Node {
	n.Idx, n.Line, n.Col, n.End = first.Idx, first.Line, first.Col, lastEnd
	return n
}

// expr parses one full expression (everything that binds with a power above zero).
func (p *rparser) expr() (*Node, *ParseErr) {
	var operands []*Node
	var ops []stackOp
	reduce := func() *ParseErr {
		op := ops[len(ops)-1]
		ops = ops[:len(ops)-1]
		switch op.kind {
		case "prefix":
			x := operands[len(operands)-1]
			n := &Node{Kind: "unary", Text: op.tok.Lexeme, Prefix: true, Kids: []*Node{x}, OpIdx: op.tok.Idx, OpCol: op.tok.Col}
			operands[len(operands)-1] = span(n, op.tok, x.End)
		case "binary":
			r := operands[len(operands)-1]
			l := operands[len(operands)-2]
			operands = operands[:len(operands)-1]
			if op.info.fixity == "infixn" {
				for _, c := range []*Node{l, r} {
					if c.Kind == "binary" && c.Text == op.tok.Lexeme {
						return &ParseErr{op.tok.Lexeme + " is non-associative"}
					}
				}
			}
			n := &Node{Kind: "binary", Text: op.tok.Lexeme, Kids: []*Node{l, r}, OpIdx: op.tok.Idx, OpCol: op.tok.Col}
			operands[len(operands)-1] = spanFromNode(n, l, r.End)
		case "ternary":
			e := operands[len(operands)-1]
			n := &Node{Kind: "ternary", Text: "?", Kids: []*Node{op.cond, op.mid, e}, OpIdx: op.tok.Idx, OpCol: op.tok.Col}
			operands[len(operands)-1] = spanFromNode(n, op.cond, e.End)
		}
		return nil
	}
	wantOperand := true
	for {
		if wantOperand {
			t := p.next()
			if info, ok := p.t.prefix[t.Kind]; ok && isOperatorToken(t) {
				ops = append(ops, stackOp{kind: "prefix", tok: t, rbp: info.bp, info: info})
				continue
			}
			n, err := p.primary(t)
			if err != nil {
				return nil, err
			}
			operands = append(operands, n)
			wantOperand = false
			continue
		}
		t := p.peek()
		info, ok := p.t.infix[t.Kind]
		if !ok || info.bp <= 0 || !(isOperatorToken(t) || t.Kind == "(" || t.Kind == "[") {
			break
		}
		for len(ops) > 0 && ops[len(ops)-1].rbp >= info.bp {
			if err := reduce(); err != nil {
				return nil, err
			}
		}
		p.next()
		top := operands[len(operands)-1]
		switch info.fixity {
		case "postfix":
			n := &Node{Kind: "unary", Text: t.Lexeme, Prefix: false, Kids: []*Node{top}, OpIdx: t.Idx, OpCol: t.Col}
			operands[len(operands)-1] = spanFromNode(n, top, t.End)
		case "call":
			n, err := p.call(top, t)
			if err != nil {
				return nil, err
			}
			operands[len(operands)-1] = n
		case "subscript":
			idx, err := p.expr()
			if err != nil {
				return nil, err
			}
			rb, err := p.expect("]")
			if err != nil {
				return nil, err
			}
			n := &Node{Kind: "subscript", Kids: []*Node{top, idx}, OpIdx: t.Idx, OpCol: t.Col}
			operands[len(operands)-1] = spanFromNode(n, top, rb.End)
		case "member":
			name := p.next()
			if name.Kind == "<eof>" {
				return nil, &ParseErr{"member name missing"}
			}
			field := &Node{Kind: "ident", Text: name.Lexeme, OpIdx: -1}
			span(field, name, name.End)
			n := &Node{Kind: "member", Text: name.Lexeme, Kids: []*Node{top, field}, OpIdx: t.Idx, OpCol: t.Col}
			spanFromNode(n, top, name.End)
			if p.peek().Kind == "(" {
				lp := p.next()
				c, err := p.call(n, lp)
				if err != nil {
					return nil, err
				}
				n = c
			}
			operands[len(operands)-1] = n
		case "ternary":
			mid, err := p.expr()
			if err != nil {
				return nil, err
			}
			if _, err := p.expect(":"); err != nil {
				return nil, err
			}
			operands = operands[:len(operands)-1]
			ops = append(ops, stackOp{kind: "ternary", tok: t, rbp: prevBP(bpCond), info: info, cond: top, mid: mid})
			wantOperand = true
		case "infixl", "infixn":
			ops = append(ops, stackOp{kind: "binary", tok: t, rbp: info.bp, info: info})
			wantOperand = true
		case "infixr":
			ops = append(ops, stackOp{kind: "binary", tok: t, rbp: prevBP(info.bp), info: info})
			wantOperand = true
		}
	}
	for len(ops) > 0 {
		if err := reduce(); err != nil {
			return nil, err
		}
	}
	return operands[0], nil
}

// isOperatorToken: operator-table entries apply to operator tokens (and the fixed '?' '.'); an
// identifier or literal that merely spells like a table key is not one.
func isOperatorToken(t Tok) bool {
	switch t.Kind {
	case "<sym>", "<num>", "<str>", "<time>", "<eof>", "true", "false", ":", ",", ")", "]", "}", "{", "(", "[":
		return false
	}
	return true
}

func (p *rparser) call(callee *Node, lp Tok) (*Node, *ParseErr) {
	kids := []*Node{callee}
	var rp Tok
	if p.peek().Kind == ")" {
		rp = p.next()
	} else {
		for {
			a, err := p.expr()
			if err != nil {
				return nil, err
			}
			kids = append(kids, a)
			if p.peek().Kind != "," {
				break
			}
			p.next()
		}
		var err *ParseErr
		if rp, err = p.expect(")"); err != nil {
			return nil, err
		}
	}
	n := &Node{Kind: "call", Kids: kids, OpIdx: lp.Idx, OpCol: lp.Col}
	return spanFromNode(n, callee, rp.End), nil
}

func (p *rparser) primary(t Tok) (*Node, *ParseErr) {
	atom := func(kind string) *Node {
		return span(&Node{Kind: kind, Text: t.Lexeme, OpIdx: -1}, t, t.End)
	}
	switch t.Kind {
	case "<sym>":
		return atom("ident"), nil
	case "true", "false":
		return atom("bool"), nil
	case "<num>":
		if _, ok := NumLiteralValue(t.Lexeme); !ok {
			return nil, &ParseErr{"invalid num literal " + t.Lexeme}
		}
		return atom("num"), nil
	case "<str>":
		if _, err := strconv.Unquote(t.Lexeme); err != nil {
			return nil, &ParseErr{"invalid string literal " + t.Lexeme}
		}
		return atom("str"), nil
	case "<time>":
		return atom("time"), nil
	case "(":
		e, err := p.expr()
		if err != nil {
			return nil, err
		}
		rp, err := p.expect(")")
		if err != nil {
			return nil, err
		}
		return span(&Node{Kind: "group", Kids: []*Node{e}, OpIdx: -1}, t, rp.End), nil
	case "[":
		return p.listOrMap(t)
	case "{":
		n := &Node{Kind: "obj", OpIdx: -1}
		for p.peek().Kind != "}" {
			name, err := p.expect("<sym>")
			if err != nil {
				return nil, err
			}
			if _, err := p.expect(":"); err != nil {
				return nil, err
			}
			v, err := p.expr()
			if err != nil {
				return nil, err
			}
			n.Names = append(n.Names, name.Lexeme)
			n.Kids = append(n.Kids, v)
			if p.peek().Kind != "," {
				break
			}
			p.next()
		}
		rb, err := p.expect("}")
		if err != nil {
			return nil, err
		}
		return span(n, t, rb.End), nil
	}
	return nil, &ParseErr{"unexpected " + t.Lexeme}
}

func (p *rparser) listOrMap(lb Tok) (*Node, *ParseErr) {
	if p.peek().Kind == ":" {
		p.next()
		rb, err := p.expect("]")
		if err != nil {
			return nil, err
		}
		return span(&Node{Kind: "map", OpIdx: -1}, lb, rb.End), nil
	}
	if p.peek().Kind == "]" {
		rb := p.next()
		return span(&Node{Kind: "list", OpIdx: -1}, lb, rb.End), nil
	}
	first, err := p.expr()
	if err != nil {
		return nil, err
	}
	n := &Node{OpIdx: -1}
	if p.peek().Kind == ":" {
		n.Kind = "map"
		p.next()
		v, err := p.expr()
		if err != nil {
			return nil, err
		}
		n.Kids = append(n.Kids, first, v)
		for p.peek().Kind == "," {
			p.next()
			if p.peek().Kind == "]" {
				break
			}
			k, err := p.expr()
			if err != nil {
				return nil, err
			}
			if _, err := p.expect(":"); err != nil {
				return nil, err
			}
			v, err := p.expr()
			if err != nil {
				return nil, err
			}
			n.Kids = append(n.Kids, k, v)
		}
	} else {
		n.Kind = "list"
		n.Kids = append(n.Kids, first)
		for p.peek().Kind == "," {
			p.next()
			if p.peek().Kind == "]" {
				break
			}
			e, err := p.expr()
			if err != nil {
				return nil, err
			}
			n.Kids = append(n.Kids, e)
		}
	}
	rb, err := p.expect("]")
	if err != nil {
		return nil, err
	}
	return span(n, lb, rb.End), nil
}

// NumLiteralValue: the value of a numeric token text, or false when the text is one token by the
// lexical grammar but not a number (1.2.3, 1e5e6).
func NumLiteralValue(s string) (float64, bool) {
	if n, err := strconv.ParseFloat(s, 64); err == nil {
		// ParseFloat accepts forms the lexer never produces (underscores, hex floats, inf): the
		// lexer's own grammar already excluded them, so any text that reaches here is a lexer token.
		return n, true
	}
	for _, pre := range []struct {
		p    string
		base int
	}{{"0x", 16}, {"0b", 2}, {"0o", 8}} {
		if strings.HasPrefix(s, pre.p) {
			if n, err := strconv.ParseInt(s[2:], pre.base, 64); err == nil {
				return float64(n), true
			}
		}
	}
	return 0, false
}
