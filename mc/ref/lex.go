package ref

import (
	"fmt"
	"sort"
	"strings"
	"unicode"
)

// Reference lexer: a hand-written scanner (no regexp) for the documented lexical grammar.

// Op describes a registered operator for the reference lexer / parser.
type Op struct {
	Sym    string
	BP     float64
	Fixity string // prefix | infixl | infixr | infixn | postfix
}

// Tok is a reference token.
type Tok struct {
	Kind   string // the lexeme for punctuation / operators / true / false; <num> <str> <time> <sym>
	Lexeme string
	Idx    int // rune index, inclusive
	End    int // rune index, exclusive
	Line   int
	Col    int
}

const opChars = ":!#$%^&*+./<=>?@\\ˆ|~-"

func isOpChar(r rune) bool { return strings.ContainsRune(opChars, r) }

func isIdentStart(r rune) bool {
	return r == '_' || (r >= 'a' && r <= 'z') || (r >= 'A' && r <= 'Z') || unicode.IsLetter(r)
}

func isIdentPart(r rune) bool { return isIdentStart(r) || (r >= '0' && r <= '9') }

// IsIdentLike: operator spelled like an identifier.
func IsIdentLike(s string) bool {
	rs := []rune(s)
	if len(rs) == 0 || !isIdentStart(rs[0]) {
		return false
	}
	for _, r := range rs[1:] {
		if !isIdentPart(r) {
			return false
		}
	}
	return true
}

type LexErr struct {
	Idx int
	Msg string
}

func (e *LexErr) Error() string { return fmt.Sprintf("lex error at %d: %s", e.Idx, e.Msg) }

// Lex tokenises the input under the given operator set.
func Lex(input string, ops []Op) ([]Tok, *LexErr) {
	rs := []rune(input)
	var toks []Tok
	line, col := 0, 0
	adv := func(i, j int) {
		for ; i < j; i++ {
			if rs[i] == '\n' {
				line++
				col = 0
			} else {
				col++
			}
		}
	}
	// distinct operator spellings
	var syms []string
	seen := map[string]bool{}
	for _, o := range ops {
		if !seen[o.Sym] {
			seen[o.Sym] = true
			syms = append(syms, o.Sym)
		}
	}
	i := 0
	for {
		for i < len(rs) && unicode.IsSpace(rs[i]) {
			adv(i, i+1)
			i++
		}
		if i >= len(rs) {
			return toks, nil
		}
		kind, n := scanOne(rs[i:], syms)
		if n <= 0 {
			return nil, &LexErr{i, "no token matches"}
		}
		toks = append(toks, Tok{Kind: kind, Lexeme: string(rs[i : i+n]), Idx: i, End: i + n, Line: line, Col: col})
		adv(i, i+n)
		i += n
	}
}

func hasPrefix(rs []rune, s string) (int, bool) {
	ss := []rune(s)
	if len(ss) > len(rs) {
		return 0, false
	}
	for k, r := range ss {
		if rs[k] != r {
			return 0, false
		}
	}
	return len(ss), true
}

func wholeWord(rs []rune, s string) (int, bool) {
	n, ok := hasPrefix(rs, s)
	if !ok {
		return 0, false
	}
	if n < len(rs) && isIdentPart(rs[n]) {
		return 0, false
	}
	return n, true
}

// scanOne returns the kind and rune length of the token at the start of rs (0 = none).
func scanOne(rs []rune, syms []string) (string, int) {
	// 1. punctuation outranks everything
	switch rs[0] {
	case ':', ',', '(', ')', '[', ']', '{', '}':
		return string(rs[0]), 1
	}
	// 2. the built-in '.' and '?' stand alone only when no operator character follows
	if rs[0] == '.' || rs[0] == '?' {
		if len(rs) == 1 || !isOpChar(rs[1]) {
			return string(rs[0]), 1
		}
	}
	// 3. registered operators: the longest symbolic operator that matches; identifier-like
	//    operators only as whole words (the longest whole-word match)
	best, bestN := "", 0
	cands := append([]string(nil), syms...)
	sort.SliceStable(cands, func(a, b int) bool { return len(cands[a]) > len(cands[b]) })
	for _, s := range cands {
		var n int
		var ok bool
		if IsIdentLike(s) {
			n, ok = wholeWord(rs, s)
		} else {
			n, ok = hasPrefix(rs, s)
		}
		if ok && len(s) > len(best) {
			best, bestN = s, n
		}
	}
	if bestN > 0 {
		return best, bestN
	}
	// 4. true / false as whole words
	for _, kw := range []string{"true", "false"} {
		if n, ok := wholeWord(rs, kw); ok {
			return kw, n
		}
	}
	// 5. numbers
	if n := scanNum(rs); n > 0 {
		return "<num>", n
	}
	// 6. strings
	if rs[0] == '"' {
		if n := scanStr(rs); n > 0 {
			return "<str>", n
		}
		return "", 0
	}
	if rs[0] == '`' {
		for k := 1; k < len(rs); k++ {
			if rs[k] == '`' {
				return "<str>", k + 1
			}
		}
		return "", 0
	}
	// 7. time literals
	if rs[0] == '\'' {
		for k := 1; k < len(rs); k++ {
			switch rs[k] {
			case '\'':
				return "<time>", k + 1
			case '`', '"':
				return "", 0
			}
		}
		return "", 0
	}
	// 8. identifiers
	if isIdentStart(rs[0]) {
		k := 1
		for k < len(rs) && isIdentPart(rs[k]) {
			k++
		}
		return "<sym>", k
	}
	return "", 0
}

func digitsFrom(rs []rune, i int) int {
	for i < len(rs) && rs[i] >= '0' && rs[i] <= '9' {
		i++
	}
	return i
}

// scanNum: the numeric forms in their documented priority:
//   int(.digits)+(e[+-]?digits)?  |  int(.digits)?(e[+-]?digits)+  |  0b…  |  0x…  |  0o…  |  int
// where int = 0 | [1-9][0-9]*
func scanNum(rs []rune) int {
	if rs[0] < '0' || rs[0] > '9' {
		return 0
	}
	intEnd := 1
	if rs[0] != '0' {
		intEnd = digitsFrom(rs, 0)
	}
	frac := func(i int) (int, int) { // returns end, groups
		g := 0
		for i+1 < len(rs) && rs[i] == '.' && rs[i+1] >= '0' && rs[i+1] <= '9' {
			i = digitsFrom(rs, i+1)
			g++
		}
		return i, g
	}
	exp1 := func(i int) (int, bool) {
		if i < len(rs) && (rs[i] == 'e' || rs[i] == 'E') {
			j := i + 1
			if j < len(rs) && (rs[j] == '+' || rs[j] == '-') {
				j++
			}
			if k := digitsFrom(rs, j); k > j {
				return k, true
			}
		}
		return i, false
	}
	// form 1: at least one fraction group, at most one exponent
	if e, g := frac(intEnd); g > 0 {
		if e2, ok := exp1(e); ok {
			return e2
		}
		return e
	}
	// form 2: at most one fraction group (none here, form 1 took those), one or more exponents
	{
		e := intEnd
		n := 0
		for {
			e2, ok := exp1(e)
			if !ok {
				break
			}
			e, n = e2, n+1
		}
		if n > 0 {
			return e
		}
	}
	// radix forms
	if rs[0] == '0' && len(rs) >= 3 {
		set := ""
		switch rs[1] {
		case 'b':
			set = "01"
		case 'x':
			set = "0123456789abcdefABCDEF"
		case 'o':
			set = "01234567"
		}
		if set != "" {
			if rs[2] == '0' {
				return 3
			}
			if strings.ContainsRune(set, rs[2]) {
				k := 3
				for k < len(rs) && strings.ContainsRune(set, rs[k]) {
					k++
				}
				return k
			}
		}
	}
	return intEnd
}

// scanStr: "(plain | \ one of "\trnbf/ | \uXXXX)*"
func scanStr(rs []rune) int {
	i := 1
	for i < len(rs) {
		switch rs[i] {
		case '"':
			return i + 1
		case '\\':
			if i+1 >= len(rs) {
				return 0
			}
			c := rs[i+1]
			if strings.ContainsRune(`"\trnbf/`, c) {
				i += 2
				continue
			}
			if c == 'u' && i+5 < len(rs)+0 && isHex4(rs[i+2:min(i+6, len(rs))]) {
				i += 6
				continue
			}
			return 0
		default:
			i++
		}
	}
	return 0
}

func isHex4(rs []rune) bool {
	if len(rs) != 4 {
		return false
	}
	for _, r := range rs {
		if !strings.ContainsRune("0123456789abcdefABCDEF", r) {
			return false
		}
	}
	return true
}
