package ref

import (
	"fmt"
	"strconv"
	"strings"
)

// Reference reader for the generated WHERE text: a tokenizer and a precedence reader with the
// standard SQL precedence (comparison / predicate, then NOT, then AND, then OR).

type SQLTok struct {
	Kind string // ident num str kw op ( ) ,
	Text string // raw text
	Val  string // decoded string / identifier name
}

func sqlLex(s string) ([]SQLTok, error) {
	var out []SQLTok
	i := 0
	for i < len(s) {
		c := s[i]
		switch {
		case c == ' ':
			i++
		case c == '(' || c == ')' || c == ',':
			out = append(out, SQLTok{Kind: string(c), Text: string(c)})
			i++
		case c == '`':
			j := strings.IndexByte(s[i+1:], '`')
			if j < 0 {
				return nil, fmt.Errorf("unterminated identifier at %d", i)
			}
			out = append(out, SQLTok{Kind: "ident", Text: s[i : i+j+2], Val: s[i+1 : i+1+j]})
			i += j + 2
		case c == '"':
			// a double-quoted literal: backslash escapes the next character; the literal ends at the
			// first unescaped quote
			j := i + 1
			for j < len(s) && s[j] != '"' {
				if s[j] == '\\' {
					j++
				}
				j++
			}
			if j >= len(s) {
				return nil, fmt.Errorf("unterminated string at %d", i)
			}
			raw := s[i : j+1]
			val, err := strconv.Unquote(raw)
			if err != nil {
				return nil, fmt.Errorf("string literal %s does not decode: %v", raw, err)
			}
			out = append(out, SQLTok{Kind: "str", Text: raw, Val: val})
			i = j + 1
		case c == '\'':
			return nil, fmt.Errorf("single-quoted text at %d", i)
		case c >= '0' && c <= '9' || c == '-' || c == '+':
			j := i + 1
			for j < len(s) && (s[j] >= '0' && s[j] <= '9' || s[j] == '.') {
				j++
			}
			// Inf / NaN spellings are not SQL numbers
			out = append(out, SQLTok{Kind: "num", Text: s[i:j]})
			i = j
		case c == '=' || c == '<' || c == '>':
			j := i + 1
			for j < len(s) && (s[j] == '=' || s[j] == '>') {
				j++
			}
			out = append(out, SQLTok{Kind: "op", Text: s[i:j]})
			i = j
		case c >= 'A' && c <= 'Z' || c >= 'a' && c <= 'z' || c == '_':
			j := i
			for j < len(s) && (s[j] >= 'A' && s[j] <= 'Z' || s[j] >= 'a' && s[j] <= 'z' || s[j] == '_' || s[j] >= '0' && s[j] <= '9') {
				j++
			}
			out = append(out, SQLTok{Kind: "kw", Text: s[i:j]})
			i = j
		default:
			return nil, fmt.Errorf("unexpected byte %q at %d", c, i)
		}
	}
	return out, nil
}

// SQLNode: boolean structure read back from the text.
type SQLNode struct {
	Op   string     // AND OR NOT | leaf operator (= <> > >= < <= IN BETWEEN LIKE ISNULL)
	Kids []*SQLNode // for AND / OR / NOT
	Args []SQLTok   // leaf operands in order (the tested column first)
}

func (n *SQLNode) String() string {
	switch n.Op {
	case "AND", "OR", "NOT":
		xs := make([]string, len(n.Kids))
		for i, k := range n.Kids {
			xs[i] = k.String()
		}
		return "(" + n.Op + " " + strings.Join(xs, " ") + ")"
	}
	xs := make([]string, len(n.Args))
	for i, a := range n.Args {
		xs[i] = a.Text
	}
	return "[" + n.Op + " " + strings.Join(xs, " ") + "]"
}

type sqlParser struct {
	toks []SQLTok
	pos  int
}

func (p *sqlParser) peek() SQLTok {
	if p.pos >= len(p.toks) {
		return SQLTok{Kind: "eof"}
	}
	return p.toks[p.pos]
}

func (p *sqlParser) next() SQLTok { t := p.peek(); p.pos++; return t }

func (p *sqlParser) kw(w string) bool {
	if t := p.peek(); t.Kind == "kw" && t.Text == w {
		p.pos++
		return true
	}
	return false
}

// ReadSQL parses a WHERE text.
func ReadSQL(s string) (*SQLNode, error) {
	toks, err := sqlLex(s)
	if err != nil {
		return nil, err
	}
	p := &sqlParser{toks: toks}
	n, err := p.or()
	if err != nil {
		return nil, err
	}
	if p.pos < len(p.toks) {
		return nil, fmt.Errorf("trailing %q", p.peek().Text)
	}
	return n, nil
}

func (p *sqlParser) or() (*SQLNode, error) {
	l, err := p.and()
	if err != nil {
		return nil, err
	}
	for p.kw("OR") {
		r, err := p.and()
		if err != nil {
			return nil, err
		}
		l = &SQLNode{Op: "OR", Kids: []*SQLNode{l, r}}
	}
	return l, nil
}

func (p *sqlParser) and() (*SQLNode, error) {
	l, err := p.not()
	if err != nil {
		return nil, err
	}
	for p.kw("AND") {
		r, err := p.not()
		if err != nil {
			return nil, err
		}
		l = &SQLNode{Op: "AND", Kids: []*SQLNode{l, r}}
	}
	return l, nil
}

func (p *sqlParser) not() (*SQLNode, error) {
	if p.kw("NOT") {
		k, err := p.not()
		if err != nil {
			return nil, err
		}
		return &SQLNode{Op: "NOT", Kids: []*SQLNode{k}}, nil
	}
	return p.predicate()
}

func (p *sqlParser) operand() (SQLTok, error) {
	t := p.next()
	switch t.Kind {
	case "ident", "num", "str":
		return t, nil
	case "kw":
		if t.Text == "from_unixtime" {
			if p.next().Kind != "(" {
				return t, fmt.Errorf("from_unixtime without (")
			}
			n := p.next()
			if n.Kind != "num" || p.next().Kind != ")" {
				return t, fmt.Errorf("malformed from_unixtime")
			}
			return SQLTok{Kind: "time", Text: "from_unixtime(" + n.Text + ")", Val: n.Text}, nil
		}
	}
	return t, fmt.Errorf("operand expected, got %q", t.Text)
}

func (p *sqlParser) predicate() (*SQLNode, error) {
	if p.peek().Kind == "(" {
		p.next()
		n, err := p.or()
		if err != nil {
			return nil, err
		}
		if p.next().Kind != ")" {
			return nil, fmt.Errorf(") expected")
		}
		return n, nil
	}
	a, err := p.operand()
	if err != nil {
		return nil, err
	}
	t := p.next()
	switch {
	case t.Kind == "op":
		b, err := p.operand()
		if err != nil {
			return nil, err
		}
		return &SQLNode{Op: t.Text, Args: []SQLTok{a, b}}, nil
	case t.Kind == "kw" && t.Text == "LIKE":
		b, err := p.operand()
		if err != nil {
			return nil, err
		}
		return &SQLNode{Op: "LIKE", Args: []SQLTok{a, b}}, nil
	case t.Kind == "kw" && t.Text == "IS":
		if !p.kw("NULL") {
			return nil, fmt.Errorf("IS without NULL")
		}
		return &SQLNode{Op: "ISNULL", Args: []SQLTok{a}}, nil
	case t.Kind == "kw" && t.Text == "BETWEEN":
		lo, err := p.operand()
		if err != nil {
			return nil, err
		}
		if !p.kw("AND") {
			return nil, fmt.Errorf("BETWEEN without AND")
		}
		hi, err := p.operand()
		if err != nil {
			return nil, err
		}
		return &SQLNode{Op: "BETWEEN", Args: []SQLTok{a, lo, hi}}, nil
	case t.Kind == "kw" && t.Text == "IN":
		if p.next().Kind != "(" {
			return nil, fmt.Errorf("IN without (")
		}
		args := []SQLTok{a}
		if p.peek().Kind == ")" {
			p.next()
			return &SQLNode{Op: "IN", Args: args}, nil
		}
		for {
			x, err := p.operand()
			if err != nil {
				return nil, err
			}
			args = append(args, x)
			if p.peek().Kind == "," {
				p.next()
				continue
			}
			break
		}
		if p.next().Kind != ")" {
			return nil, fmt.Errorf(") expected after IN list")
		}
		return &SQLNode{Op: "IN", Args: args}, nil
	}
	return nil, fmt.Errorf("predicate operator expected after %q, got %q", a.Text, t.Text)
}

// Flatten merges nested AND into AND and nested OR into OR (their associativity).
func (n *SQLNode) Flatten() *SQLNode {
	if n.Op != "AND" && n.Op != "OR" && n.Op != "NOT" {
		return n
	}
	out := &SQLNode{Op: n.Op}
	for _, k := range n.Kids {
		fk := k.Flatten()
		if (n.Op == "AND" || n.Op == "OR") && fk.Op == n.Op {
			out.Kids = append(out.Kids, fk.Kids...)
		} else {
			out.Kids = append(out.Kids, fk)
		}
	}
	return out
}
