package ref

import (
	"fmt"
	"sort"

	"verif/mc/gen"
)

// Sig is one registered function overload.
type Sig struct {
	Name   string
	Params []*gen.Ty
	Ret    *gen.Ty
	Lazy   bool
	// Strict implementation (arguments already evaluated) …
	Impl func(ev *Eval, args []*V) (*V, *Fail)
	// … or lazy implementation (arguments are thunks).
	LazyImpl func(ev *Eval, args []Thunk) (*V, *Fail)
	Host     bool // registered by the harness: calls are part of the observable trace
	Tag      string
}

func (s *Sig) Ty() *gen.Ty { return gen.Fun(s.Name, s.Params, s.Ret) }

func (s *Sig) Mono() bool { return s.Ty().Ground() }

// Funs is a function table in registration order.
type Funs struct {
	Sigs []*Sig
}

func (f *Funs) Register(s ...*Sig) *Funs {
	f.Sigs = append(f.Sigs, s...)
	return f
}

// Clone copies the table (registration order kept).
func (f *Funs) Clone() *Funs { return &Funs{append([]*Sig(nil), f.Sigs...)} }

// TypeErr is a compile-time rejection predicted by the reference.
type TypeErr struct{ Msg string }

func (e *TypeErr) Error() string { return e.Msg }

func terr(f string, a ...interface{}) *TypeErr { return &TypeErr{fmt.Sprintf(f, a...)} }

// Reserved words cannot be used as variable names.
var reserved = map[string]bool{}

func init() {
	for _, w := range []string{"byte", "int", "float", "double", "string", "bool", "boolean", "ch", "void",
		"type", "var", "def", "define", "let", "rec", "mut", "fun", "fn", "function",
		"record", "struct", "map", "list", "object", "class", "trait", "interface",
		"sealed", "extends", "prefix", "infixl", "infixr", "infixn",
		"for", "do", "while", "switch", "cast", "range", "match", "select",
		"break", "continue", "return", "try", "catch", "throw", "finally",
		"import", "as", "module", "package", "namespace", "assert", "debugger"} {
		reserved[w] = true
	}
}

// ReservedWords lists the reserved identifiers (sorted).
func ReservedWords() []string {
	var out []string
	for w := range reserved {
		out = append(out, w)
	}
	sort.Strings(out)
	return out
}

// Resolution records which overload a call resolved to (for the evaluator).
type Resolution map[*gen.Term]*Sig

// Checker is the reference type checker.
type Checker struct {
	Funs *Funs
	Env  map[string]*gen.Ty
	Res  Resolution
	// TypeOf records the inferred type of every sub-term.
	TypeOf map[*gen.Term]*gen.Ty
}

func NewChecker(funs *Funs, env map[string]*gen.Ty) *Checker {
	return &Checker{Funs: funs, Env: env, Res: Resolution{}, TypeOf: map[*gen.Term]*gen.Ty{}}
}

// match: one-way matching of a parameter pattern against an argument type. An argument-side ⊥
// (element type of an empty literal) is accepted at any non-variable pattern position, a pattern
// variable is bound to whatever it meets; repeated variables must meet equal types.
func match(p, a *gen.Ty, b map[string]*gen.Ty) bool {
	if p.K == gen.KVar {
		if old, ok := b[p.Name]; ok {
			return gen.Equal(old, a)
		}
		b[p.Name] = a
		return true
	}
	if a.K == gen.KBot {
		return true
	}
	if p.K == gen.KTop {
		return true
	}
	if p.K != a.K {
		return false
	}
	switch p.K {
	case gen.KList, gen.KMaybe:
		return match(p.El, a.El, b)
	case gen.KMap:
		return match(p.Key, a.Key, b) && match(p.Val, a.Val, b)
	case gen.KObj:
		if len(p.Fields) != len(a.Fields) {
			return false
		}
		for _, f := range p.Fields {
			at := a.Field(f.Name)
			if at == nil || !match(f.T, at, b) {
				return false
			}
		}
		return true
	case gen.KFun:
		if len(p.Params) != len(a.Params) {
			return false
		}
		for i := range p.Params {
			if !match(p.Params[i], a.Params[i], b) {
				return false
			}
		}
		return match(p.Ret, a.Ret, b)
	}
	return true
}

// instantiate tries one polymorphic overload: parameters must match the arguments and the result
// must become fully concrete.
func instantiate(s *Sig, args []*gen.Ty) (params []*gen.Ty, ret *gen.Ty, ok bool) {
	if len(s.Params) != len(args) {
		return nil, nil, false
	}
	b := map[string]*gen.Ty{}
	for i := range args {
		if !match(s.Params[i], args[i], b) {
			return nil, nil, false
		}
	}
	ret = s.Ret.Subst(b)
	if !ret.Ground() {
		return nil, nil, false
	}
	params = make([]*gen.Ty, len(args))
	for i, p := range s.Params {
		params[i] = p.Subst(b)
	}
	return params, ret, true
}

// Resolve picks the overload for name(args): an exactly matching monomorphic overload first (a
// later registration with the same parameter tuple replaces an earlier one), otherwise the first
// registered polymorphic overload of that name and arity that instantiates.
func (c *Checker) Resolve(name string, args []*gen.Ty) (*Sig, []*gen.Ty, *gen.Ty, *TypeErr) {
	var mono *Sig
	for _, s := range c.Funs.Sigs {
		if s.Name != name || !s.Mono() || len(s.Params) != len(args) {
			continue
		}
		same := true
		for i := range args {
			if !gen.Equal(s.Params[i], args[i]) {
				same = false
				break
			}
		}
		if same {
			mono = s
		}
	}
	if mono != nil {
		return mono, mono.Params, mono.Ret, nil
	}
	any := false
	for _, s := range c.Funs.Sigs {
		if s.Name != name || s.Mono() || len(s.Params) != len(args) {
			continue
		}
		any = true
		if ps, r, ok := instantiate(s, args); ok {
			return s, ps, r, nil
		}
	}
	_ = any
	return nil, nil, nil, terr("no overload of %s for %v", name, args)
}

// Check infers the type of t or rejects it.
func (c *Checker) Check(t *gen.Term) (ty *gen.Ty, err *TypeErr) {
	defer func() {
		if err == nil {
			c.TypeOf[t] = ty
		}
	}()
	switch t.Op {
	case "num":
		return gen.Num, nil
	case "str":
		return gen.Str, nil
	case "bool":
		return gen.Bool, nil
	case "time":
		return gen.Time, nil
	case "group":
		return c.Check(t.Args[0])
	case "var":
		if reserved[t.Name] {
			return nil, terr("%s reserved", t.Name)
		}
		ty, ok := c.Env[t.Name]
		if !ok {
			return nil, terr("undefined %s", t.Name)
		}
		return ty, nil
	case "list":
		if len(t.Args) == 0 {
			return gen.List(gen.Bot), nil
		}
		el, err := c.Check(t.Args[0])
		if err != nil {
			return nil, err
		}
		for _, a := range t.Args[1:] {
			at, err := c.Check(a)
			if err != nil {
				return nil, err
			}
			if !gen.Equal(el, at) {
				return nil, terr("list element %s vs %s", el, at)
			}
		}
		return gen.List(el), nil
	case "map":
		if len(t.Args) == 0 {
			return gen.Map(gen.Bot, gen.Bot), nil
		}
		kt, err := c.Check(t.Args[0])
		if err != nil {
			return nil, err
		}
		if !kt.IsPrim() {
			return nil, terr("map key type %s", kt)
		}
		vt, err := c.Check(t.Args[1])
		if err != nil {
			return nil, err
		}
		for i := 2; i+1 < len(t.Args); i += 2 {
			k2, err := c.Check(t.Args[i])
			if err != nil {
				return nil, err
			}
			if !gen.Equal(kt, k2) {
				return nil, terr("map key %s vs %s", kt, k2)
			}
			v2, err := c.Check(t.Args[i+1])
			if err != nil {
				return nil, err
			}
			if !gen.Equal(vt, v2) {
				return nil, terr("map value %s vs %s", vt, v2)
			}
		}
		return gen.Map(kt, vt), nil
	case "obj":
		fs := make([]gen.FieldTy, len(t.Args))
		for i, a := range t.Args {
			at, err := c.Check(a)
			if err != nil {
				return nil, err
			}
			fs[i] = gen.FieldTy{Name: t.Fields[i], T: at}
		}
		seen := map[string]bool{}
		for _, f := range fs {
			if seen[f.Name] {
				return nil, terr("duplicated field %s", f.Name)
			}
			seen[f.Name] = true
		}
		return gen.Obj(fs...), nil
	case "sub":
		vt, err := c.Check(t.Args[0])
		if err != nil {
			return nil, err
		}
		switch vt.K {
		case gen.KList:
			it, err := c.Check(t.Args[1])
			if err != nil {
				return nil, err
			}
			if !gen.Equal(it, gen.Num) {
				return nil, terr("list index %s", it)
			}
			return vt.El, nil
		case gen.KMap:
			it, err := c.Check(t.Args[1])
			if err != nil {
				return nil, err
			}
			if !gen.Equal(it, vt.Key) {
				return nil, terr("map index %s for key type %s", it, vt.Key)
			}
			return vt.Val, nil
		}
		return nil, terr("subscript of %s", vt)
	case "mem":
		ot, err := c.Check(t.Args[0])
		if err != nil {
			return nil, err
		}
		if ot.K != gen.KObj {
			return nil, terr("member of %s", ot)
		}
		ft := ot.Field(t.Name)
		if ft == nil {
			return nil, terr("no field %s in %s", t.Name, ot)
		}
		return ft, nil
	case "dcall":
		ft, err := c.Check(t.Args[0])
		if err != nil {
			return nil, err
		}
		if ft.K != gen.KFun {
			return nil, terr("call of a non-function %s", ft)
		}
		args := make([]*gen.Ty, len(t.Args)-1)
		for i, a := range t.Args[1:] {
			at, err := c.Check(a)
			if err != nil {
				return nil, err
			}
			args[i] = at
		}
		ps, ret, ok := instantiate(&Sig{Name: ft.Name, Params: ft.Params, Ret: ft.Ret}, args)
		if !ok {
			return nil, terr("arguments %v do not fit %s", args, ft)
		}
		for i := range args {
			if !gen.Equal(ps[i], args[i]) {
				return nil, terr("parameter %s vs argument %s", ps[i], args[i])
			}
		}
		return ret, nil
	case "call":
		args := make([]*gen.Ty, len(t.Args))
		for i, a := range t.Args {
			at, err := c.Check(a)
			if err != nil {
				return nil, err
			}
			args[i] = at
		}
		sig, params, ret, err := c.Resolve(t.Name, args)
		if err != nil {
			return nil, err
		}
		// the instantiated parameters must equal the arguments (an empty literal's ⊥ element type
		// equals only itself, so it is accepted only where a bare type variable took it).
		for i := range args {
			if !gen.Equal(params[i], args[i]) {
				return nil, terr("%s: parameter %s vs argument %s", t.Name, params[i], args[i])
			}
		}
		c.Res[t] = sig
		return ret, nil
	}
	return nil, terr("bad term %s", t.Op)
}
