package ref

import (
	"fmt"

	"verif/mc/gen"
)

// Reference bytecode verifier: complete linear decode, operand kinds and ranges, forward-only
// jumps to instruction boundaries, and a typed abstract stack that must agree on every path.
// The instruction set is described here by mnemonic (operand layout and stack effect), written
// from vm/opcode.go and the documented meaning of each instruction.

// BCConst is one constant-pool entry as the adapter sees it.
type BCConst struct {
	Kind  string  // value | name | type | funval | other
	Ty    *gen.Ty // value: its type; type: the type; funval: unknown until asked
	Name  string
	Fun   func() (ty *gen.Ty, lazy bool, err error) // interpret a funval as a registered function
	Thunk func() (*BCProgram, *gen.Ty, error)       // interpret a funval as a thunk: body and result type
}

type BCProgram struct {
	Code   []byte
	Consts []BCConst
}

type BCEnv struct {
	OpName func(byte) string
	NumOps int
	Vars   map[string]*gen.Ty // types of environment names (nil = unknown)
}

type bcOp struct {
	operands string   // sequence of: c (u16 const) m (u16 int) a (u8 argc) j (u16 jump target)
	pops     []string // operand kinds popped, bottom first: num str bool time list map obj maybe any
	push     string   // "" none; kind or special
}

var anyTy = &gen.Ty{K: gen.KTop}

var bcOps = map[string]bcOp{
	"OP_NOP":    {},
	"OP_RETURN": {},
	"OP_CONST":  {operands: "c"},
	"OP_LOAD":   {operands: "c"},

	"OP_ADD_NUM":       {pops: []string{"num"}, push: "num"},
	"OP_ADD_NUM_NUM":   {pops: []string{"num", "num"}, push: "num"},
	"OP_ADD_STR_STR":   {pops: []string{"str", "str"}, push: "str"},
	"OP_SUB_NUM":       {pops: []string{"num"}, push: "num"},
	"OP_SUB_NUM_NUM":   {pops: []string{"num", "num"}, push: "num"},
	"OP_SUB_TIME_TIME": {pops: []string{"time", "time"}, push: "num"},
	"OP_MUL_NUM_NUM":   {pops: []string{"num", "num"}, push: "num"},
	"OP_DIV_NUM_NUM":   {pops: []string{"num", "num"}, push: "num"},
	"OP_MOD_NUM_NUM":   {pops: []string{"num", "num"}, push: "num"},
	"OP_EXP_NUM_NUM":   {pops: []string{"num", "num"}, push: "num"},
	"OP_ABS_NUM":       {pops: []string{"num"}, push: "num"},
	"OP_CEIL_NUM":      {pops: []string{"num"}, push: "num"},
	"OP_FLOOR_NUM":     {pops: []string{"num"}, push: "num"},
	"OP_ROUND_NUM":     {pops: []string{"num"}, push: "num"},
	"OP_MIN_NUM_NUM":   {pops: []string{"num", "num"}, push: "num"},
	"OP_MAX_NUM_NUM":   {pops: []string{"num", "num"}, push: "num"},

	"OP_EQ_NUM_NUM":   {pops: []string{"num", "num"}, push: "bool"},
	"OP_EQ_BOOL_BOOL": {pops: []string{"bool", "bool"}, push: "bool"},
	"OP_EQ_STR_STR":   {pops: []string{"str", "str"}, push: "bool"},
	"OP_EQ_TIME_TIME": {pops: []string{"time", "time"}, push: "bool"},
	"OP_EQ_LIST_LIST": {pops: []string{"list", "list"}, push: "bool"},
	"OP_EQ_MAP_MAP":   {pops: []string{"map", "map"}, push: "bool"},
	"OP_NE_NUM_NUM":   {pops: []string{"num", "num"}, push: "bool"},
	"OP_NE_BOOL_BOOL": {pops: []string{"bool", "bool"}, push: "bool"},
	"OP_NE_STR_STR":   {pops: []string{"str", "str"}, push: "bool"},
	"OP_NE_TIME_TIME": {pops: []string{"time", "time"}, push: "bool"},
	"OP_NE_LIST_LIST": {pops: []string{"list", "list"}, push: "bool"},
	"OP_NE_MAP_MAP":   {pops: []string{"map", "map"}, push: "bool"},
	"OP_LT_NUM_NUM":   {pops: []string{"num", "num"}, push: "bool"},
	"OP_LT_TIME_TIME": {pops: []string{"time", "time"}, push: "bool"},
	"OP_LE_NUM_NUM":   {pops: []string{"num", "num"}, push: "bool"},
	"OP_LE_TIME_TIME": {pops: []string{"time", "time"}, push: "bool"},
	"OP_GT_NUM_NUM":   {pops: []string{"num", "num"}, push: "bool"},
	"OP_GT_TIME_TIME": {pops: []string{"time", "time"}, push: "bool"},
	"OP_GE_NUM_NUM":   {pops: []string{"num", "num"}, push: "bool"},
	"OP_GE_TIME_TIME": {pops: []string{"time", "time"}, push: "bool"},

	"OP_NEW_LIST": {operands: "cm"},
	"OP_NEW_MAP":  {operands: "cm"},
	"OP_NEW_OBJ":  {operands: "c"},

	"OP_LIST_LOAD": {pops: []string{"list", "num"}, push: "elem"},
	"OP_MAP_LOAD":  {pops: []string{"map", "any"}, push: "mapval"},
	"OP_OBJ_LOAD":  {operands: "c", pops: []string{"obj"}, push: "field"},

	"OP_LEN_STR":  {pops: []string{"str"}, push: "num"},
	"OP_LEN_LIST": {pops: []string{"list"}, push: "num"},
	"OP_LEN_MAP":  {pops: []string{"map"}, push: "num"},

	"OP_STRTOTIME_STR": {pops: []string{"str"}, push: "time"},

	"OP_CALL_BY_VALUE": {operands: "ca"},
	"OP_CALL_BY_NEED":  {operands: "ca"},
	"OP_DYNAMIC_CALL":  {operands: "a"},

	"OP_GET_MAYBE": {pops: []string{"maybe", "any"}, push: "payload"},

	"OP_IF_TRUE":     {operands: "j", pops: []string{"bool"}},
	"OP_LOGICAL_NOT": {pops: []string{"bool"}, push: "bool"},
	"OP_JUMP":        {operands: "j"},
}

func kindOK(want string, t *gen.Ty) bool {
	if t == nil || t.K == gen.KTop || want == "any" {
		return true
	}
	switch want {
	case "num":
		return t.K == gen.KNum
	case "str":
		return t.K == gen.KStr
	case "bool":
		return t.K == gen.KBool
	case "time":
		return t.K == gen.KTime
	case "list":
		return t.K == gen.KList
	case "map":
		return t.K == gen.KMap
	case "obj":
		return t.K == gen.KObj
	case "maybe":
		return t.K == gen.KMaybe
	}
	return false
}

func prim(k string) *gen.Ty {
	switch k {
	case "num":
		return gen.Num
	case "str":
		return gen.Str
	case "bool":
		return gen.Bool
	case "time":
		return gen.Time
	}
	return anyTy
}

type bcInstr struct {
	off, next int
	name      string
	c, m, a   int
	j         int
}

// BCStats is what the verifier measured.
type BCStats struct {
	Instructions int
	Jumps        int
	Thunks       int
	MaxDepth     int
	Bytes        int
}

// VerifyBC checks one program (and, recursively, its thunk bodies). want is the type the program
// must leave on the stack (nil = any). It returns the first problem found.
func VerifyBC(p *BCProgram, env *BCEnv, want *gen.Ty, st *BCStats, depth int) error {
	if depth > 64 {
		return fmt.Errorf("thunk nesting deeper than 64")
	}
	code := p.Code
	st.Bytes += len(code)
	if len(code) == 0 {
		return fmt.Errorf("empty code")
	}
	// ---- pass 1: complete linear decode
	var ins []bcInstr
	starts := map[int]int{}
	for i := 0; i < len(code); {
		op := code[i]
		if int(op) >= env.NumOps {
			return fmt.Errorf("offset %d: unknown opcode %d", i, op)
		}
		name := env.OpName(op)
		spec, ok := bcOps[name]
		if !ok {
			return fmt.Errorf("offset %d: opcode %d (%s) is not part of the documented instruction set", i, op, name)
		}
		in := bcInstr{off: i, name: name, c: -1, m: -1, a: -1, j: -1}
		k := i + 1
		for _, o := range spec.operands {
			switch o {
			case 'c', 'm', 'j':
				if k+2 > len(code) {
					return fmt.Errorf("offset %d: %s operand runs past the end of the code", i, name)
				}
				v := int(code[k])<<8 | int(code[k+1])
				k += 2
				switch o {
				case 'c':
					in.c = v
				case 'm':
					in.m = v
				case 'j':
					in.j = v
				}
			case 'a':
				if k+1 > len(code) {
					return fmt.Errorf("offset %d: %s operand runs past the end of the code", i, name)
				}
				in.a = int(code[k])
				k++
			}
		}
		in.next = k
		starts[i] = len(ins)
		ins = append(ins, in)
		i = k
	}
	st.Instructions += len(ins)
	if ins[len(ins)-1].name != "OP_RETURN" {
		return fmt.Errorf("code does not end with OP_RETURN but with %s", ins[len(ins)-1].name)
	}
	// ---- pass 2: operands, jumps, typed abstract stack
	type state []*gen.Ty
	incoming := map[int]state{}
	merge := func(at int, s state, from int) error {
		if old, ok := incoming[at]; ok {
			if len(old) != len(s) {
				return fmt.Errorf("offset %d: stack depth %d arriving from offset %d, but %d on another path", at, len(s), from, len(old))
			}
			for i := range s {
				if old[i].K != gen.KTop && s[i].K != gen.KTop && !gen.Equal(old[i], s[i]) {
					return fmt.Errorf("offset %d: stack slot %d is %s from offset %d but %s on another path", at, i, s[i], from, old[i])
				}
			}
			return nil
		}
		incoming[at] = append(state(nil), s...)
		return nil
	}
	// the abstract stack flows linearly; copies are taken only at jumps (so the cost is linear in
	// the code size, not quadratic in the stack depth)
	var s state
	live := true // is the fall-through state valid at the current instruction?
	for idx, in := range ins {
		if tgt, isTarget := incoming[in.off]; isTarget && in.off != 0 {
			if live {
				if err := merge(in.off, s, -1); err != nil {
					return err
				}
			} else {
				s = append(state(nil), tgt...)
				live = true
			}
		}
		if !live {
			return fmt.Errorf("offset %d: %s is unreachable", in.off, in.name)
		}
		if len(s) > st.MaxDepth {
			st.MaxDepth = len(s)
		}
		spec := bcOps[in.name]
		pop := func(n int) ([]*gen.Ty, error) {
			if len(s) < n {
				return nil, fmt.Errorf("offset %d: %s pops %d values from a stack of %d", in.off, in.name, n, len(s))
			}
			out := s[len(s)-n:]
			s = s[:len(s)-n]
			return out, nil
		}
		cst := func(kind string) (*BCConst, error) {
			if in.c < 0 || in.c >= len(p.Consts) {
				return nil, fmt.Errorf("offset %d: %s constant index %d outside the pool of %d", in.off, in.name, in.c, len(p.Consts))
			}
			c := &p.Consts[in.c]
			if c.Kind != kind {
				return nil, fmt.Errorf("offset %d: %s constant %d is a %s, a %s is required", in.off, in.name, in.c, c.Kind, kind)
			}
			return c, nil
		}
		fallthroughOK := true
		switch in.name {
		case "OP_RETURN":
			if idx != len(ins)-1 {
				return fmt.Errorf("offset %d: OP_RETURN before the end of the code", in.off)
			}
			if len(s) != 1 {
				return fmt.Errorf("offset %d: stack depth at the final return is %d, must be exactly 1", in.off, len(s))
			}
			if want != nil && s[0].K != gen.KTop && want.Ground() && !gen.Equal(want, s[0]) {
				return fmt.Errorf("offset %d: returns %s where %s is expected", in.off, s[0], want)
			}
			fallthroughOK = false
		case "OP_CONST":
			if in.c < 0 || in.c >= len(p.Consts) {
				return fmt.Errorf("offset %d: OP_CONST index %d outside the pool of %d", in.off, in.c, len(p.Consts))
			}
			c := &p.Consts[in.c]
			switch c.Kind {
			case "value":
				s = append(s, c.Ty)
			case "funval":
				body, ret, err := c.Thunk()
				if err != nil {
					return fmt.Errorf("offset %d: OP_CONST %d is function-typed but not a thunk: %v", in.off, in.c, err)
				}
				st.Thunks++
				if err := VerifyBC(body, env, ret, st, depth+1); err != nil {
					return fmt.Errorf("thunk at offset %d: %v", in.off, err)
				}
				s = append(s, gen.Fun("thunk", nil, ret))
			default:
				return fmt.Errorf("offset %d: OP_CONST operand %d is a %s, not a value", in.off, in.c, c.Kind)
			}
		case "OP_LOAD":
			c, err := cst("name")
			if err != nil {
				return err
			}
			t := anyTy
			if env.Vars != nil {
				vt, ok := env.Vars[c.Name]
				if !ok {
					return fmt.Errorf("offset %d: OP_LOAD of %q, which the environment does not define", in.off, c.Name)
				}
				t = vt
			}
			s = append(s, t)
		case "OP_NEW_LIST", "OP_NEW_MAP", "OP_NEW_OBJ":
			c, err := cst("type")
			if err != nil {
				return err
			}
			n := in.m
			var wantK gen.K
			switch in.name {
			case "OP_NEW_LIST":
				wantK = gen.KList
			case "OP_NEW_MAP":
				wantK, n = gen.KMap, 2*in.m
			default:
				wantK, n = gen.KObj, len(c.Ty.Fields)
			}
			if c.Ty.K != wantK {
				return fmt.Errorf("offset %d: %s with a type constant %s", in.off, in.name, c.Ty)
			}
			vals, err := pop(n)
			if err != nil {
				return err
			}
			for i, v := range vals {
				var exp *gen.Ty
				switch in.name {
				case "OP_NEW_LIST":
					exp = c.Ty.El
				case "OP_NEW_MAP":
					if i%2 == 0 {
						exp = c.Ty.Key
					} else {
						exp = c.Ty.Val
					}
				default:
					exp = c.Ty.Fields[i].T
				}
				if v.K != gen.KTop && !gen.Equal(exp, v) {
					return fmt.Errorf("offset %d: %s member %d is %s, the type constant %s requires %s", in.off, in.name, i, v, c.Ty, exp)
				}
			}
			s = append(s, c.Ty)
		case "OP_OBJ_LOAD":
			c, err := cst("name")
			if err != nil {
				return err
			}
			o, err := pop(1)
			if err != nil {
				return err
			}
			if !kindOK("obj", o[0]) {
				return fmt.Errorf("offset %d: OP_OBJ_LOAD on %s", in.off, o[0])
			}
			t := anyTy
			if o[0].K == gen.KObj {
				if t = o[0].Field(c.Name); t == nil {
					return fmt.Errorf("offset %d: OP_OBJ_LOAD of field %q that %s does not have", in.off, c.Name, o[0])
				}
			}
			s = append(s, t)
		case "OP_CALL_BY_VALUE", "OP_CALL_BY_NEED":
			c, err := cst("funval")
			if err != nil {
				return err
			}
			ft, lazy, err := c.Fun()
			if err != nil {
				return fmt.Errorf("offset %d: %s constant %d: %v", in.off, in.name, in.c, err)
			}
			if lazy != (in.name == "OP_CALL_BY_NEED") {
				return fmt.Errorf("offset %d: %s of %s whose laziness is %v", in.off, in.name, ft, lazy)
			}
			if in.a != len(ft.Params) {
				return fmt.Errorf("offset %d: %s passes %d arguments to %s", in.off, in.name, in.a, ft)
			}
			args, err := pop(in.a)
			if err != nil {
				return err
			}
			b := map[string]*gen.Ty{}
			for i, a := range args {
				at := a
				if lazy {
					if a.K != gen.KFun || len(a.Params) != 0 {
						return fmt.Errorf("offset %d: lazy argument %d of %s is %s, not a thunk", in.off, i, ft.Name, a)
					}
					at = a.Ret
				}
				if at.K != gen.KTop && !match(ft.Params[i], at, b) {
					return fmt.Errorf("offset %d: argument %d of %s is %s, parameter is %s", in.off, i, ft.Name, at, ft.Params[i])
				}
			}
			r := ft.Ret.Subst(b)
			if !r.Ground() {
				r = anyTy
			}
			s = append(s, r)
		case "OP_DYNAMIC_CALL":
			args, err := pop(in.a)
			if err != nil {
				return err
			}
			f, err := pop(1)
			if err != nil {
				return err
			}
			r := anyTy
			if f[0].K == gen.KFun {
				if len(f[0].Params) != in.a {
					return fmt.Errorf("offset %d: dynamic call passes %d arguments to %s", in.off, in.a, f[0])
				}
				r = f[0].Ret
			} else if f[0].K != gen.KTop {
				return fmt.Errorf("offset %d: dynamic call of a %s", in.off, f[0])
			}
			for i, a := range args {
				if a.K != gen.KTop && (a.K != gen.KFun || len(a.Params) != 0) {
					return fmt.Errorf("offset %d: dynamic-call argument %d is %s, not a thunk", in.off, i, a)
				}
			}
			if !r.Ground() {
				r = anyTy
			}
			s = append(s, r)
		case "OP_JUMP", "OP_IF_TRUE":
			st.Jumps++
			if in.name == "OP_IF_TRUE" {
				c, err := pop(1)
				if err != nil {
					return err
				}
				if !kindOK("bool", c[0]) {
					return fmt.Errorf("offset %d: OP_IF_TRUE tests a %s", in.off, c[0])
				}
			}
			if in.j <= in.off {
				return fmt.Errorf("offset %d: %s jumps backward or to itself (target %d)", in.off, in.name, in.j)
			}
			if _, ok := starts[in.j]; !ok {
				return fmt.Errorf("offset %d: %s target %d is not an instruction boundary inside the code (%d bytes)", in.off, in.name, in.j, len(code))
			}
			if err := merge(in.j, s, in.off); err != nil {
				return err
			}
			if in.name == "OP_JUMP" {
				fallthroughOK = false
			}
		default:
			vals, err := pop(len(spec.pops))
			if err != nil {
				return err
			}
			for i, v := range vals {
				if !kindOK(spec.pops[i], v) {
					return fmt.Errorf("offset %d: %s operand %d is %s, must be %s", in.off, in.name, i, v, spec.pops[i])
				}
			}
			switch spec.push {
			case "":
			case "elem":
				t := anyTy
				if vals[0].K == gen.KList {
					t = vals[0].El
				}
				s = append(s, t)
			case "mapval":
				t := anyTy
				if vals[0].K == gen.KMap {
					t = vals[0].Val
					if vals[1].K != gen.KTop && !gen.Equal(vals[0].Key, vals[1]) {
						return fmt.Errorf("offset %d: OP_MAP_LOAD key %s on %s", in.off, vals[1], vals[0])
					}
				}
				s = append(s, t)
			case "payload":
				t := anyTy
				if vals[0].K == gen.KMaybe {
					t = vals[0].El
					if vals[1].K != gen.KTop && !gen.Equal(t, vals[1]) {
						return fmt.Errorf("offset %d: OP_GET_MAYBE default %s for %s", in.off, vals[1], vals[0])
					}
				}
				s = append(s, t)
			default:
				s = append(s, prim(spec.push))
			}
		}
		live = fallthroughOK
	}
	return nil
}
