package ref

import (
	"encoding/json"
	"math"
	"time"

	"verif/mc/gen"
)

// JSON form of a value: numbers travel as IEEE bit patterns (NaN / ±Inf / -0 survive), instants
// as unix nanoseconds.
type vJSON struct {
	T  *gen.Ty  `json:"t"`
	NB *uint64  `json:"nb,omitempty"`
	S  string   `json:"s,omitempty"`
	B  bool     `json:"b,omitempty"`
	Tm *int64   `json:"tm,omitempty"`
	Tz *int     `json:"tz,omitempty"`  // zone offset in seconds east of UTC
	Tn string   `json:"tzn,omitempty"` // zone name
	L  []*V     `json:"l,omitempty"`
	MK []*V     `json:"mk,omitempty"`
	MV []*V     `json:"mv,omitempty"`
	OF []string `json:"of,omitempty"`
	OV []*V     `json:"ov,omitempty"`
	P  *V       `json:"p,omitempty"`
	Fn string `json:"fn,omitempty"` // function value: its registry tag
	// human-readable rendition, ignored when reading
	Txt string `json:"txt,omitempty"`
}

func (v *V) MarshalJSON() ([]byte, error) {
	j := vJSON{T: v.T, S: v.S, B: v.B, L: v.L, MK: v.MK, MV: v.MV, OF: v.OF, OV: v.OV, P: v.P}
	if v.T != nil && v.T.K == gen.KNum {
		b := math.Float64bits(v.N)
		j.NB = &b
		j.Txt = v.Describe()
	}
	if v.T != nil && v.T.K == gen.KTime {
		n := v.Tm.UnixNano()
		j.Tm = &n
		name, off := v.Tm.Zone()
		j.Tz, j.Tn = &off, name
		j.Txt = v.Tm.UTC().String()
	}
	if v.Fn != nil {
		j.Fn = v.Fn.Tag
	}
	return json.Marshal(j)
}

// SigRegistry resolves function values that travel through case files by tag.
var SigRegistry = map[string]*Sig{}

func (v *V) UnmarshalJSON(b []byte) error {
	var j vJSON
	if err := json.Unmarshal(b, &j); err != nil {
		return err
	}
	*v = V{T: j.T, S: j.S, B: j.B, L: j.L, MK: j.MK, MV: j.MV, OF: j.OF, OV: j.OV, P: j.P}
	if j.Fn != "" {
		v.Fn = SigRegistry[j.Fn]
	}
	if j.NB != nil {
		v.N = math.Float64frombits(*j.NB)
	}
	if j.Tm != nil {
		v.Tm = time.Unix(0, *j.Tm)
		if j.Tz != nil {
			if lname, loff := v.Tm.Zone(); lname != j.Tn || loff != *j.Tz {
				v.Tm = v.Tm.In(time.FixedZone(j.Tn, *j.Tz))
			}
		}
	}
	return nil
}
