// Package ref holds the reference models (oracles): a syntax-directed type checker and a big-step
// evaluator over the harness's own terms and values. It does not import the code under test.
package ref

import (
	"fmt"
	"math"
	"sort"
	"strconv"
	"strings"
	"time"

	"verif/mc/gen"
)

// V is a reference value. Maps keep insertion order; objects keep written field order.
type V struct {
	T  *gen.Ty
	N  float64
	S  string
	B  bool
	Tm time.Time
	L  []*V
	MK []*V
	MV []*V
	OF []string
	OV []*V
	P  *V // optional payload, nil = absent
	Fn *Sig
}

func NumV(n float64) *V     { return &V{T: gen.Num, N: n} }
func StrV(s string) *V      { return &V{T: gen.Str, S: s} }
func BoolV(b bool) *V       { return &V{T: gen.Bool, B: b} }
func TimeV(t time.Time) *V  { return &V{T: gen.Time, Tm: t} }
func ListV(el *gen.Ty, xs ...*V) *V { return &V{T: gen.List(el), L: xs} }
func NothingV(el *gen.Ty) *V { return &V{T: gen.Maybe(el)} }
func JustV(p *V) *V          { return &V{T: gen.Maybe(p.T), P: p} }

func MapV(k, v *gen.Ty, kvs ...*V) *V {
	m := &V{T: gen.Map(k, v)}
	for i := 0; i+1 < len(kvs); i += 2 {
		m.MapPut(kvs[i], kvs[i+1])
	}
	return m
}

func ObjV(names []string, vals ...*V) *V {
	fs := make([]gen.FieldTy, len(names))
	for i, n := range names {
		fs[i] = gen.FieldTy{Name: n, T: vals[i].T}
	}
	return &V{T: gen.Obj(fs...), OF: names, OV: vals}
}

// KeyText is the identity of a scalar as a map key / set element: the language's canonical scalar
// rendering (integral numbers inside the int64 range print as integers, others in shortest
// positional form; instants by their absolute time).
func (v *V) KeyText() string {
	switch v.T.K {
	case gen.KBool:
		return "b:" + strconv.FormatBool(v.B)
	case gen.KNum:
		return "n:" + NumText(v.N)
	case gen.KStr:
		return "s:" + v.S
	case gen.KTime:
		return "t:" + strconv.FormatInt(v.Tm.UnixNano(), 10)
	}
	return "?:" + v.Render()
}

// NumText: the canonical rendering of a number.
func NumText(n float64) string {
	if n == math.Trunc(n) && math.Abs(n) < 9223372036854775808.0 {
		return strconv.FormatInt(int64(n), 10)
	}
	return strconv.FormatFloat(n, 'f', -1, 64)
}

func (v *V) MapGet(k *V) (*V, bool) {
	kt := k.KeyText()
	for i, x := range v.MK {
		if x.KeyText() == kt {
			return v.MV[i], true
		}
	}
	return nil, false
}

// MapPut: last write wins, the entry keeps its first position and its first key.
func (v *V) MapPut(k, val *V) {
	kt := k.KeyText()
	for i, x := range v.MK {
		if x.KeyText() == kt {
			v.MV[i] = val
			return
		}
	}
	v.MK = append(v.MK, k)
	v.MV = append(v.MV, val)
}

func (v *V) Field(name string) (*V, bool) {
	for i, n := range v.OF {
		if n == name {
			return v.OV[i], true
		}
	}
	return nil, false
}

// Render is the canonical rendering (the language's Val.String): strings quoted Go-style, map
// entries sorted by key text, object fields sorted by name.
func (v *V) Render() string {
	switch v.T.K {
	case gen.KNum:
		return NumText(v.N)
	case gen.KBool:
		return strconv.FormatBool(v.B)
	case gen.KStr:
		return strconv.Quote(v.S)
	case gen.KTime:
		return v.Tm.String()
	case gen.KList:
		xs := make([]string, len(v.L))
		for i, e := range v.L {
			xs[i] = e.Render()
		}
		return "[" + strings.Join(xs, ", ") + "]"
	case gen.KMap:
		if len(v.MK) == 0 {
			return "[:]"
		}
		type kv struct{ k, s string }
		xs := make([]kv, len(v.MK))
		for i, k := range v.MK {
			ks := k.scalarKeyRender()
			xs[i] = kv{ks, ks + ": " + v.MV[i].Render()}
		}
		sort.SliceStable(xs, func(i, j int) bool { return xs[i].k < xs[j].k })
		ss := make([]string, len(xs))
		for i, x := range xs {
			ss[i] = x.s
		}
		return "[" + strings.Join(ss, ", ") + "]"
	case gen.KObj:
		idx := make([]int, len(v.OF))
		for i := range idx {
			idx[i] = i
		}
		sort.SliceStable(idx, func(i, j int) bool { return v.OF[idx[i]] < v.OF[idx[j]] })
		ss := make([]string, len(idx))
		for j, i := range idx {
			ss[j] = v.OF[i] + ": " + v.OV[i].Render()
		}
		return "{" + strings.Join(ss, ", ") + "}"
	case gen.KMaybe:
		if v.P == nil {
			return "Nothing#" + TyText(v.T.El) + "()"
		}
		return "Just#" + TyText(v.T.El) + "(" + v.P.Render() + ")"
	case gen.KFun:
		return "#fun"
	}
	return "?"
}

// FunV is a function value bound in an environment.
func FunV(s *Sig) *V { return &V{T: s.Ty(), Fn: s} }

// scalarKeyRender: how a key prints inside a rendered map (strings and instants quoted).
func (v *V) scalarKeyRender() string {
	switch v.T.K {
	case gen.KStr:
		return strconv.Quote(v.S)
	case gen.KTime:
		return strconv.Quote(v.Tm.String())
	}
	return v.Render()
}

// TyText renders a type the way the language prints types.
func TyText(t *gen.Ty) string {
	switch t.K {
	case gen.KNum:
		return "num"
	case gen.KStr:
		return "str"
	case gen.KBool:
		return "bool"
	case gen.KTime:
		return "time"
	case gen.KBot:
		return "⊥"
	case gen.KTop:
		return "⊤"
	case gen.KVar:
		return "'" + t.Name
	case gen.KList:
		return "list[" + TyText(t.El) + "]"
	case gen.KMap:
		return "map[" + TyText(t.Key) + ", " + TyText(t.Val) + "]"
	case gen.KMaybe:
		return "maybe[" + TyText(t.El) + "]"
	case gen.KObj:
		xs := make([]string, len(t.Fields))
		for i, f := range t.Fields {
			xs[i] = f.Name + ": " + TyText(f.T)
		}
		return "{" + strings.Join(xs, ", ") + "}"
	case gen.KFun:
		xs := make([]string, len(t.Params))
		for i, p := range t.Params {
			xs[i] = TyText(p)
		}
		return "func " + t.Name + "(" + strings.Join(xs, ", ") + ") " + TyText(t.Ret)
	}
	return "?"
}

// Stringify is the language's string(x) conversion: like Render but strings are bare, object
// fields keep their stored order, optionals print without their type.
func (v *V) Stringify() string {
	switch v.T.K {
	case gen.KStr:
		return v.S
	case gen.KList:
		xs := make([]string, len(v.L))
		for i, e := range v.L {
			xs[i] = e.Stringify()
		}
		return "[" + strings.Join(xs, ", ") + "]"
	case gen.KMap:
		if len(v.MK) == 0 {
			return "[:]"
		}
		type kv struct{ k, s string }
		xs := make([]kv, len(v.MK))
		for i, k := range v.MK {
			ks := k.scalarKeyRender()
			xs[i] = kv{ks, ks + ": " + v.MV[i].Stringify()}
		}
		sort.SliceStable(xs, func(i, j int) bool { return xs[i].k < xs[j].k })
		ss := make([]string, len(xs))
		for i, x := range xs {
			ss[i] = x.s
		}
		return "[" + strings.Join(ss, ", ") + "]"
	case gen.KObj:
		ss := make([]string, len(v.OF))
		for i := range v.OF {
			ss[i] = v.OF[i] + ": " + v.OV[i].Stringify()
		}
		return "{" + strings.Join(ss, ", ") + "}"
	case gen.KMaybe:
		if v.P == nil {
			return "Nothing()"
		}
		return "Just(" + v.P.Stringify() + ")"
	}
	return v.Render()
}

// Same is exact structural identity of two reference values (numbers bit-exact, NaN ≡ NaN,
// instants by absolute time, objects by field name, maps by key identity) — never the
// language's tolerance.
func Same(a, b *V) bool {
	if a == nil || b == nil {
		return a == b
	}
	if a.T.K != b.T.K {
		return false
	}
	switch a.T.K {
	case gen.KNum:
		return math.Float64bits(a.N) == math.Float64bits(b.N) || (a.N != a.N && b.N != b.N)
	case gen.KStr:
		return a.S == b.S
	case gen.KBool:
		return a.B == b.B
	case gen.KTime:
		return a.Tm.Equal(b.Tm)
	case gen.KList:
		if len(a.L) != len(b.L) {
			return false
		}
		for i := range a.L {
			if !Same(a.L[i], b.L[i]) {
				return false
			}
		}
		return true
	case gen.KMap:
		if len(a.MK) != len(b.MK) {
			return false
		}
		for i, k := range a.MK {
			bv, ok := b.MapGet(k)
			if !ok || !Same(a.MV[i], bv) {
				return false
			}
		}
		return true
	case gen.KObj:
		if len(a.OF) != len(b.OF) {
			return false
		}
		for i, n := range a.OF {
			bv, ok := b.Field(n)
			if !ok || !Same(a.OV[i], bv) {
				return false
			}
		}
		return true
	case gen.KMaybe:
		if (a.P == nil) != (b.P == nil) {
			return false
		}
		return a.P == nil || Same(a.P, b.P)
	case gen.KFun:
		return a.Fn == b.Fn
	}
	return false
}

// Describe is a compact exact description for messages and outcome hashing.
func (v *V) Describe() string {
	if v == nil {
		return "<nil>"
	}
	switch v.T.K {
	case gen.KNum:
		if v.N != v.N {
			return "NaN"
		}
		return strconv.FormatFloat(v.N, 'g', -1, 64)
	case gen.KTime:
		return fmt.Sprintf("@%d", v.Tm.UnixNano())
	case gen.KList:
		xs := make([]string, len(v.L))
		for i, e := range v.L {
			xs[i] = e.Describe()
		}
		return "[" + strings.Join(xs, ",") + "]"
	case gen.KMap:
		xs := make([]string, len(v.MK))
		for i := range v.MK {
			xs[i] = v.MK[i].Describe() + ":" + v.MV[i].Describe()
		}
		sort.Strings(xs)
		return "[" + strings.Join(xs, ",") + ":]"
	case gen.KObj:
		xs := make([]string, len(v.OF))
		for i := range v.OF {
			xs[i] = v.OF[i] + ":" + v.OV[i].Describe()
		}
		sort.Strings(xs)
		return "{" + strings.Join(xs, ",") + "}"
	case gen.KMaybe:
		if v.P == nil {
			return "Nothing"
		}
		return "Just(" + v.P.Describe() + ")"
	}
	return v.Render()
}
