package real

import (
	"github.com/goghcrow/yae/conv"
	"github.com/goghcrow/yae/types"
)

func convTypeEnv(v interface{}) (*types.Env, error) { return conv.TypeEnvOf(v) }
