package real

import (
	"fmt"
	"strings"

	"github.com/goghcrow/yae"
	"github.com/goghcrow/yae/closure"
	"github.com/goghcrow/yae/compiler"
	"github.com/goghcrow/yae/fun"
	"github.com/goghcrow/yae/interp"
	"github.com/goghcrow/yae/parser/oper"
	"github.com/goghcrow/yae/trans"
	"github.com/goghcrow/yae/types"
	"github.com/goghcrow/yae/val"
	"github.com/goghcrow/yae/verifhook"
	"github.com/goghcrow/yae/vm"

	"verif/mc/gen"
	"verif/mc/ref"
)

// Backend names one of the four execution back ends.
type Backend string

const (
	VMSwitch Backend = "vm"
	VMCall   Backend = "vm-callthreaded"
	Closure  Backend = "closure"
	Interp   Backend = "interp"
)

var Backends = []Backend{VMSwitch, VMCall, Closure, Interp}

func (b Backend) Compiler() compiler.Compiler {
	switch b {
	case VMSwitch:
		return vm.Compile
	case VMCall:
		return vm.CompileCallThreaded
	case Closure:
		return closure.Compile
	case Interp:
		return interp.Interp
	}
	panic("backend")
}

// Host is the set of harness-registered functions: the reference signatures and the matching
// real function values, sharing one trace.
type Host struct {
	Sigs  []*ref.Sig
	Vals  []*val.Val
	Trace *[]string
}

func describeReal(v *val.Val) string {
	rv, err := FromVal(v)
	if err != nil {
		return "<malformed: " + err.Error() + ">"
	}
	return rv.Describe()
}

// StdHost registers: tr (strict tracer), id (strict polymorphic), second / twice (lazy), and the
// lazy user functions and / or plus strict not behind the keyword operators.
func StdHost() *Host { return stdHost(true) }

// QuietHost: the same functions without the shared trace (for concurrent scenarios: the harness
// itself must not introduce shared mutable state).
func QuietHost() *Host { return stdHost(false) }

func stdHost(trace bool) *Host {
	tr := []string{}
	h := &Host{Trace: &tr}
	logf := func(f string, a ...interface{}) {
		if trace {
			*h.Trace = append(*h.Trace, fmt.Sprintf(f, a...))
		} else {
			// quiet hosts serve the concurrency scenarios: entering a host function is a scheduling
			// point of the controlled scheduler (inert outside it), so interleavings INSIDE an
			// evaluation are explored at host-call boundaries
			// (a fresh object every time: a pure yield that orders nothing in the race detector)
			verifhook.Atomic(new(int), "host-function")
		}
	}
	a := types.TyVar("a")
	b := types.TyVar("b")
	ga, gb := gen.Var("a"), gen.Var("b")
	add := func(s *ref.Sig, v *val.Val) {
		s.Host = true
		h.Sigs = append(h.Sigs, s)
		h.Vals = append(h.Vals, v)
	}
	// tr :: num -> a -> a
	add(&ref.Sig{Name: "tr", Params: []*gen.Ty{gen.Num, ga}, Ret: ga,
		Impl: func(ev *ref.Eval, x []*ref.V) (*ref.V, *ref.Fail) {
			ev.Trace = append(ev.Trace, fmt.Sprintf("tr(%s,%s)", x[0].Describe(), x[1].Describe()))
			return x[1], nil
		}},
		val.Fun(types.Fun("tr", []*types.Type{types.Num, a}, a), func(x ...*val.Val) *val.Val {
			logf("tr(%s,%s)", describeReal(x[0]), describeReal(x[1]))
			return x[1]
		}))
	// id :: b -> b
	add(&ref.Sig{Name: "id", Params: []*gen.Ty{gb}, Ret: gb,
		Impl: func(ev *ref.Eval, x []*ref.V) (*ref.V, *ref.Fail) {
			ev.Trace = append(ev.Trace, fmt.Sprintf("id(%s)", x[0].Describe()))
			return x[0], nil
		}},
		val.Fun(types.Fun("id", []*types.Type{b}, b), func(x ...*val.Val) *val.Val {
			logf("id(%s)", describeReal(x[0]))
			return x[0]
		}))
	// second :: a -> b -> b   (lazy: only the second operand runs)
	{
		a, b := types.TyVar("a"), types.TyVar("b")
		add(&ref.Sig{Name: "second", Params: []*gen.Ty{ga, gb}, Ret: gb, Lazy: true,
			LazyImpl: func(ev *ref.Eval, t []ref.Thunk) (*ref.V, *ref.Fail) {
				ev.Trace = append(ev.Trace, "second")
				return t[1]()
			}},
			val.LazyFun(types.Fun("second", []*types.Type{a, b}, b), func(x ...*val.Val) *val.Val {
				logf("second")
				return x[1].Fun().Call()
			}))
	}
	// twice :: a -> a   (lazy: runs its operand twice, returns the second result)
	{
		a := types.TyVar("a")
		add(&ref.Sig{Name: "twice", Params: []*gen.Ty{ga}, Ret: ga, Lazy: true,
			LazyImpl: func(ev *ref.Eval, t []ref.Thunk) (*ref.V, *ref.Fail) {
				ev.Trace = append(ev.Trace, "twice")
				if _, f := t[0](); f != nil {
					return nil, f
				}
				return t[0]()
			}},
			val.LazyFun(types.Fun("twice", []*types.Type{a}, a), func(x ...*val.Val) *val.Val {
				logf("twice")
				x[0].Fun().Call()
				return x[0].Fun().Call()
			}))
	}
	// and / or :: bool -> bool -> bool (lazy, user-registered, behind the keyword operators)
	add(&ref.Sig{Name: "and", Params: []*gen.Ty{gen.Bool, gen.Bool}, Ret: gen.Bool, Lazy: true,
		LazyImpl: func(ev *ref.Eval, t []ref.Thunk) (*ref.V, *ref.Fail) {
			ev.Trace = append(ev.Trace, "and")
			c, f := t[0]()
			if f != nil {
				return nil, f
			}
			if !c.B {
				return ref.BoolV(false), nil
			}
			return t[1]()
		}},
		val.LazyFun(types.Fun("and", []*types.Type{types.Bool, types.Bool}, types.Bool), func(x ...*val.Val) *val.Val {
			logf("and")
			if !x[0].Fun().Call().Bool().V {
				return val.False
			}
			return x[1].Fun().Call()
		}))
	add(&ref.Sig{Name: "or", Params: []*gen.Ty{gen.Bool, gen.Bool}, Ret: gen.Bool, Lazy: true,
		LazyImpl: func(ev *ref.Eval, t []ref.Thunk) (*ref.V, *ref.Fail) {
			ev.Trace = append(ev.Trace, "or")
			c, f := t[0]()
			if f != nil {
				return nil, f
			}
			if c.B {
				return ref.BoolV(true), nil
			}
			return t[1]()
		}},
		val.LazyFun(types.Fun("or", []*types.Type{types.Bool, types.Bool}, types.Bool), func(x ...*val.Val) *val.Val {
			logf("or")
			if x[0].Fun().Call().Bool().V {
				return val.True
			}
			return x[1].Fun().Call()
		}))
	add(&ref.Sig{Name: "not", Params: []*gen.Ty{gen.Bool}, Ret: gen.Bool,
		Impl: func(ev *ref.Eval, x []*ref.V) (*ref.V, *ref.Fail) {
			ev.Trace = append(ev.Trace, fmt.Sprintf("not(%s)", x[0].Describe()))
			return ref.BoolV(!x[0].B), nil
		}},
		val.Fun(types.Fun("not", []*types.Type{types.Bool}, types.Bool), func(x ...*val.Val) *val.Val {
			logf("not(%s)", describeReal(x[0]))
			return val.Bool(!x[0].Bool().V)
		}))
	return h
}

// EnvFunVals: the real function values behind function-typed environment bindings (by tag); they
// log into the trace of the most recently built Host.
var EnvFunVals = map[string]*val.Val{}

// EnvFuns returns reference function values f, g (num -> num), h2 (num, num -> num) and the lazy
// lz (num, num -> num, runs its second operand only) for use as environment bindings.
func (h *Host) EnvFuns() map[string]*ref.V {
	logf := func(f string, a ...interface{}) { *h.Trace = append(*h.Trace, fmt.Sprintf(f, a...)) }
	out := map[string]*ref.V{}
	add := func(s *ref.Sig, rv *val.Val) {
		s.Tag = "envfun:" + s.Name
		ref.SigRegistry[s.Tag] = s
		EnvFunVals[s.Tag] = rv
		out[s.Name] = ref.FunV(s)
	}
	N := gen.Num
	for _, fk := range []struct {
		name string
		k    float64
	}{{"f", 1}, {"g", 2}} {
		fk := fk
		add(&ref.Sig{Name: fk.name, Params: []*gen.Ty{N}, Ret: N, Impl: func(ev *ref.Eval, x []*ref.V) (*ref.V, *ref.Fail) {
			ev.Trace = append(ev.Trace, fmt.Sprintf("%s(%s)", fk.name, x[0].Describe()))
			return ref.NumV(x[0].N + fk.k), nil
		}}, val.Fun(types.Fun(fk.name, []*types.Type{types.Num}, types.Num), func(x ...*val.Val) *val.Val {
			logf("%s(%s)", fk.name, describeReal(x[0]))
			return val.Num(x[0].Num().V + fk.k)
		}))
	}
	add(&ref.Sig{Name: "gs", Params: []*gen.Ty{N}, Ret: gen.Str, Impl: func(ev *ref.Eval, x []*ref.V) (*ref.V, *ref.Fail) {
		ev.Trace = append(ev.Trace, fmt.Sprintf("gs(%s)", x[0].Describe()))
		return ref.StrV("gs"), nil
	}}, val.Fun(types.Fun("gs", []*types.Type{types.Num}, types.Str), func(x ...*val.Val) *val.Val {
		logf("gs(%s)", describeReal(x[0]))
		return val.Str("gs")
	}))
	add(&ref.Sig{Name: "hs", Params: []*gen.Ty{gen.Str}, Ret: N, Impl: func(ev *ref.Eval, x []*ref.V) (*ref.V, *ref.Fail) {
		ev.Trace = append(ev.Trace, fmt.Sprintf("hs(%s)", x[0].Describe()))
		return ref.NumV(5), nil
	}}, val.Fun(types.Fun("hs", []*types.Type{types.Str}, types.Num), func(x ...*val.Val) *val.Val {
		logf("hs(%s)", describeReal(x[0]))
		return val.Num(5)
	}))
	add(&ref.Sig{Name: "h2", Params: []*gen.Ty{N, N}, Ret: N, Impl: func(ev *ref.Eval, x []*ref.V) (*ref.V, *ref.Fail) {
		ev.Trace = append(ev.Trace, fmt.Sprintf("h2(%s,%s)", x[0].Describe(), x[1].Describe()))
		return ref.NumV(x[0].N*10 + x[1].N), nil
	}}, val.Fun(types.Fun("h2", []*types.Type{types.Num, types.Num}, types.Num), func(x ...*val.Val) *val.Val {
		logf("h2(%s,%s)", describeReal(x[0]), describeReal(x[1]))
		return val.Num(x[0].Num().V*10 + x[1].Num().V)
	}))
	// lzns: lazy (num, str) -> num, runs and returns its first operand (parameters of different types)
	add(&ref.Sig{Name: "lzns", Params: []*gen.Ty{N, gen.Str}, Ret: N, Lazy: true, LazyImpl: func(ev *ref.Eval, t []ref.Thunk) (*ref.V, *ref.Fail) {
		ev.Trace = append(ev.Trace, "lzns")
		return t[0]()
	}}, val.LazyFun(types.Fun("lzns", []*types.Type{types.Num, types.Str}, types.Num), func(x ...*val.Val) *val.Val {
		logf("lzns")
		return x[0].Fun().Call()
	}))
	// lz1: lazy, runs its FIRST operand only; lzif: a lazy user conditional (bool, num, num)
	add(&ref.Sig{Name: "lz1", Params: []*gen.Ty{N, N}, Ret: N, Lazy: true, LazyImpl: func(ev *ref.Eval, t []ref.Thunk) (*ref.V, *ref.Fail) {
		ev.Trace = append(ev.Trace, "lz1")
		return t[0]()
	}}, val.LazyFun(types.Fun("lz1", []*types.Type{types.Num, types.Num}, types.Num), func(x ...*val.Val) *val.Val {
		logf("lz1")
		return x[0].Fun().Call()
	}))
	add(&ref.Sig{Name: "lzif", Params: []*gen.Ty{gen.Bool, N, N}, Ret: N, Lazy: true, LazyImpl: func(ev *ref.Eval, t []ref.Thunk) (*ref.V, *ref.Fail) {
		ev.Trace = append(ev.Trace, "lzif")
		c, f := t[0]()
		if f != nil {
			return nil, f
		}
		if c.B {
			return t[1]()
		}
		return t[2]()
	}}, val.LazyFun(types.Fun("lzif", []*types.Type{types.Bool, types.Num, types.Num}, types.Num), func(x ...*val.Val) *val.Val {
		logf("lzif")
		if x[0].Fun().Call().Bool().V {
			return x[1].Fun().Call()
		}
		return x[2].Fun().Call()
	}))
	add(&ref.Sig{Name: "lz", Params: []*gen.Ty{N, N}, Ret: N, Lazy: true, LazyImpl: func(ev *ref.Eval, t []ref.Thunk) (*ref.V, *ref.Fail) {
		ev.Trace = append(ev.Trace, "lz")
		return t[1]()
	}}, val.LazyFun(types.Fun("lz", []*types.Type{types.Num, types.Num}, types.Num), func(x ...*val.Val) *val.Val {
		logf("lz")
		return x[1].Fun().Call()
	}))
	return out
}

// RefFuns: the reference function table for an engine with this host set registered before the
// first compilation (user registrations precede the built-ins).
func (h *Host) RefFuns() *ref.Funs {
	f := &ref.Funs{}
	if h != nil {
		f.Register(h.Sigs...)
	}
	f.Register(ref.BuiltIns().Sigs...)
	return f
}

// NewEngine builds a fresh engine on the given back end with the host functions registered.
func NewEngine(b Backend, h *Host, ops ...oper.Operator) *yae.Expr {
	e := yae.NewExpr().UseCompiler(b.Compiler())
	if len(ops) > 0 {
		e.RegisterOperator(ops...)
	}
	if h != nil {
		e.RegisterFun(h.Vals...)
	}
	return e
}

// Obs is what one compile + invoke of the real code showed.
type Obs struct {
	CompileErr string   // compile-time rejection (returned error)
	Panic      string   // a panic that escaped the API (never acceptable for C12)
	Stage      string   // where the panic escaped: compile | call
	RunErr     string   // run-time failure returned by the Callable
	Val        *val.Val // result
	Trace      []string
}

func (o *Obs) Accepted() bool { return o.CompileErr == "" && !(o.Panic != "" && o.Stage == "compile") }

// FailKind classifies a run-time failure text as one of the documented partial-operation
// failures, or as an internal fault.
func FailKind(msg string) string {
	switch {
	case strings.HasPrefix(msg, "out of range "):
		return "index"
	case strings.HasPrefix(msg, "undefined key "):
		return "key"
	case strings.Contains(msg, "integer divide by zero"):
		return "mod0"
	case strings.HasPrefix(msg, "error parsing regexp"):
		return "regex"
	}
	return "internal"
}

// Run compiles src on a fresh engine and invokes it once.
func Run(b Backend, h *Host, src string, env EnvSpec, ops ...oper.Operator) (o *Obs) {
	return Run2(b, h, src, env, env, ops...)
}

// RunGo compiles src against a plain Go environment value and invokes it with the same value.
func RunGo(b Backend, src string, env interface{}) (o *Obs) {
	o = &Obs{}
	e := NewEngine(b, nil)
	var c yae.Callable
	var err error
	func() {
		defer func() {
			if r := recover(); r != nil {
				o.Panic, o.Stage = fmt.Sprint(r), "compile"
			}
		}()
		c, err = e.Compile(src, env)
	}()
	if o.Panic != "" {
		return
	}
	if err != nil {
		o.CompileErr = err.Error()
		return
	}
	o.Invoke(c, env, nil)
	return
}

// RuntimeEnv: a value environment for closures obtained from Expr.CompileExpr, which (unlike a
// Callable) are not handed the engine's function table: the host functions and the built-ins are
// registered in it (the AST interpreter looks functions up at run time).
func RuntimeEnv(h *Host, spec EnvSpec) *val.Env {
	ve := spec.RawValEnv()
	if h != nil {
		for _, f := range h.Vals {
			ve.RegisterFun(f)
		}
	}
	for _, f := range fun.BuiltIn() {
		ve.RegisterFun(f)
	}
	return ve
}

// RunOn compiles src on a given engine against env and invokes it with callEnv.
func RunOn(e *yae.Expr, src string, env, callEnv interface{}) (o *Obs) {
	o = &Obs{}
	var c yae.Callable
	var err error
	func() {
		defer func() {
			if r := recover(); r != nil {
				o.Panic, o.Stage = fmt.Sprint(r), "compile"
			}
		}()
		c, err = e.Compile(src, env)
	}()
	if o.Panic != "" {
		return
	}
	if err != nil {
		o.CompileErr = err.Error()
		return
	}
	o.Invoke(c, callEnv, nil)
	return
}

// Run2 compiles against env and invokes with callEnv.
func Run2(b Backend, h *Host, src string, env, callEnv EnvSpec, ops ...oper.Operator) (o *Obs) {
	o = &Obs{}
	if h != nil {
		*h.Trace = (*h.Trace)[:0]
	}
	e := NewEngine(b, h, ops...)
	carg, err := env.CompileArg()
	if err != nil {
		o.CompileErr = "harness: " + err.Error()
		return
	}
	var c yae.Callable
	func() {
		defer func() {
			if r := recover(); r != nil {
				o.Panic, o.Stage = fmt.Sprint(r), "compile"
			}
		}()
		c, err = e.Compile(src, carg)
	}()
	if o.Panic != "" {
		return
	}
	if err != nil {
		o.CompileErr = err.Error()
		return
	}
	varg, err := callEnv.CallArg()
	if err != nil {
		o.RunErr = "harness: " + err.Error()
		return
	}
	o.Invoke(c, varg, h)
	return
}

// Invoke calls a compiled expression once and records the observation.
func (o *Obs) Invoke(c yae.Callable, arg interface{}, h *Host) {
	if h != nil {
		*h.Trace = (*h.Trace)[:0]
	}
	func() {
		defer func() {
			if r := recover(); r != nil {
				o.Panic, o.Stage = fmt.Sprint(r), "call"
			}
		}()
		v, err := c(arg)
		if err != nil {
			o.RunErr = err.Error()
			if o.RunErr == "" {
				o.RunErr = "internal: the Callable returned an error with an empty message"
			}
		} else if v == nil {
			o.RunErr = "internal: the Callable returned neither a value nor an error"
		} else {
			o.Val = v
		}
	}()
	if h != nil {
		o.Trace = append([]string(nil), *h.Trace...)
	}
}

// InferType runs the real pipeline up to the type checker and returns the inferred type.
func InferType(h *Host, src string, env EnvSpec, ops ...oper.Operator) (t *gen.Ty, errText string) {
	defer func() {
		if r := recover(); r != nil {
			t, errText = nil, fmt.Sprint(r)
		}
	}()
	e := NewEngine(Closure, h, ops...)
	parsed := trans.Desugar(e.Parse(src))
	fn := types.NewEnv()
	if h != nil {
		for _, v := range h.Vals {
			fn.RegisterFun(v.Type)
		}
	}
	for _, f := range fun.BuiltIn() {
		fn.RegisterFun(f.Type)
	}
	var tenv *types.Env
	if env.Rep == "raw" {
		tenv = env.RawTypeEnv()
	} else {
		hv, err := env.Host()
		if err != nil {
			return nil, err.Error()
		}
		tenv, err = convTypeEnv(hv)
		if err != nil {
			return nil, err.Error()
		}
	}
	rt, err := types.Infer(parsed, tenv.Inherit(fn))
	if err != nil {
		return nil, err.Error()
	}
	t, err = FromType(rt, nil)
	if err != nil {
		return nil, "malformed inferred type: " + err.Error()
	}
	return t, ""
}
