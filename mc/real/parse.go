package real

import (
	"fmt"

	"github.com/goghcrow/yae/parser"
	"github.com/goghcrow/yae/parser/ast"
	"github.com/goghcrow/yae/parser/lexer"
	"github.com/goghcrow/yae/parser/oper"
	"github.com/goghcrow/yae/parser/pos"
	"github.com/goghcrow/yae/parser/token"

	"verif/mc/ref"
)

// ToOps converts reference operator declarations to the real ones.
func ToOps(ops []ref.Op) []oper.Operator {
	out := make([]oper.Operator, len(ops))
	for i, o := range ops {
		var f oper.Fixity
		switch o.Fixity {
		case "prefix":
			f = oper.PREFIX
		case "infixl":
			f = oper.INFIX_L
		case "infixr":
			f = oper.INFIX_R
		case "infixn":
			f = oper.INFIX_N
		case "postfix":
			f = oper.POSTFIX
		}
		out[i] = oper.Operator{Kind: token.Kind(o.Sym), BP: oper.BP(o.BP), Fixity: f}
	}
	return out
}

// BuiltInOps describes the built-in operator table for the reference (read from the real table so
// that the check follows the table the engine actually registers; the parser property is about
// honouring whatever table is given).
func BuiltInOps() []ref.Op {
	var out []ref.Op
	for _, o := range oper.BuiltIn() {
		f := ""
		switch o.Fixity {
		case oper.PREFIX:
			f = "prefix"
		case oper.INFIX_L:
			f = "infixl"
		case oper.INFIX_R:
			f = "infixr"
		case oper.INFIX_N:
			f = "infixn"
		case oper.POSTFIX:
			f = "postfix"
		}
		out = append(out, ref.Op{Sym: string(o.Kind), BP: float64(o.BP), Fixity: f})
	}
	return out
}

// LexResult of the real lexer.
type LexResult struct {
	Toks []*token.Token
	Err  string
}

// Lexer wraps one real lexer instance (reused: Lex resets its state).
type Lexer struct{ l interface{ Lex(string) []*token.Token } }

func NewLexer(ops []oper.Operator) *Lexer {
	return &Lexer{lexer.NewLexer(append([]oper.Operator(nil), ops...))}
}

func (x *Lexer) Lex(s string) (r LexResult) {
	defer func() {
		if e := recover(); e != nil {
			r.Toks, r.Err = nil, fmt.Sprint(e)
		}
	}()
	r.Toks = x.l.Lex(s)
	return
}

// ParseResult of the real parser.
type ParseResult struct {
	Tree ast.Expr
	Err  string
}

// Parser is one parser object that serves many inputs (the object Expr keeps is used that way).
type Parser interface {
	Parse(toks []*token.Token) ast.Expr
}

func NewParser(ops []oper.Operator) Parser { return parser.NewParser(append([]oper.Operator(nil), ops...)) }

// ParseWith parses with a given (possibly used before) parser object.
func ParseWith(p Parser, toks []*token.Token) (r ParseResult) {
	defer func() {
		if e := recover(); e != nil {
			r.Tree, r.Err = nil, fmt.Sprint(e)
		}
	}()
	r.Tree = p.Parse(toks)
	return
}

func ParseToks(ops []oper.Operator, toks []*token.Token) (r ParseResult) {
	defer func() {
		if e := recover(); e != nil {
			r.Tree, r.Err = nil, fmt.Sprint(e)
		}
	}()
	r.Tree = parser.NewParser(append([]oper.Operator(nil), ops...)).Parse(toks)
	return
}

func setPos(n *ref.Node, p pos.Pos) *ref.Node {
	n.Idx, n.End, n.Line, n.Col = p.Idx, p.IdxEnd, p.Line, p.Col
	return n
}

// ToNode converts a real (un-desugared) tree to the reference node form, spans included.
func ToNode(e ast.Expr) *ref.Node {
	switch x := e.(type) {
	case *ast.IdentExpr:
		return setPos(&ref.Node{Kind: "ident", Text: x.Name, OpIdx: -1}, x.Pos)
	case *ast.NumExpr:
		return setPos(&ref.Node{Kind: "num", Text: x.Text, OpIdx: -1}, x.Pos)
	case *ast.StrExpr:
		return setPos(&ref.Node{Kind: "str", Text: x.Text, OpIdx: -1}, x.Pos)
	case *ast.TimeExpr:
		return setPos(&ref.Node{Kind: "time", Text: x.Text, OpIdx: -1}, x.Pos)
	case *ast.BoolExpr:
		return setPos(&ref.Node{Kind: "bool", Text: x.Text, OpIdx: -1}, x.Pos)
	case *ast.ListExpr:
		n := &ref.Node{Kind: "list", OpIdx: -1}
		for _, el := range x.Elems {
			n.Kids = append(n.Kids, ToNode(el))
		}
		return setPos(n, x.Pos)
	case *ast.MapExpr:
		n := &ref.Node{Kind: "map", OpIdx: -1}
		for _, p := range x.Pairs {
			n.Kids = append(n.Kids, ToNode(p.Key), ToNode(p.Val))
		}
		return setPos(n, x.Pos)
	case *ast.ObjExpr:
		n := &ref.Node{Kind: "obj", OpIdx: -1}
		for _, f := range x.Fields {
			n.Names = append(n.Names, f.Name)
			n.Kids = append(n.Kids, ToNode(f.Val))
		}
		return setPos(n, x.Pos)
	case *ast.GroupExpr:
		return setPos(&ref.Node{Kind: "group", Kids: []*ref.Node{ToNode(x.SubExpr)}, OpIdx: -1}, x.Pos)
	case *ast.UnaryExpr:
		n := &ref.Node{Kind: "unary", Text: x.Name, Prefix: x.Prefix, Kids: []*ref.Node{ToNode(x.LHS)}, OpIdx: x.IdentExpr.Pos.Idx, OpCol: x.IdentExpr.Pos.Col}
		return setPos(n, x.Pos)
	case *ast.BinaryExpr:
		n := &ref.Node{Kind: "binary", Text: x.Name, Kids: []*ref.Node{ToNode(x.LHS), ToNode(x.RHS)}, OpIdx: x.IdentExpr.Pos.Idx, OpCol: x.IdentExpr.Pos.Col}
		return setPos(n, x.Pos)
	case *ast.TenaryExpr:
		n := &ref.Node{Kind: "ternary", Text: x.Name, Kids: []*ref.Node{ToNode(x.Left), ToNode(x.Mid), ToNode(x.Right)}, OpIdx: x.IdentExpr.Pos.Idx, OpCol: x.IdentExpr.Pos.Col}
		return setPos(n, x.Pos)
	case *ast.CallExpr:
		n := &ref.Node{Kind: "call", Kids: []*ref.Node{ToNode(x.Callee)}, OpIdx: -1, OpCol: int(x.DBGCol)}
		for _, a := range x.Args {
			n.Kids = append(n.Kids, ToNode(a))
		}
		return setPos(n, x.Pos)
	case *ast.SubscriptExpr:
		n := &ref.Node{Kind: "subscript", Kids: []*ref.Node{ToNode(x.Var), ToNode(x.Idx)}, OpIdx: -1, OpCol: int(x.DBGCol)}
		return setPos(n, x.Pos)
	case *ast.MemberExpr:
		n := &ref.Node{Kind: "member", Text: x.Field.Name, Kids: []*ref.Node{ToNode(x.Obj), ToNode(x.Field)}, OpIdx: -1, OpCol: int(x.DBGCol)}
		return setPos(n, x.Pos)
	}
	return &ref.Node{Kind: fmt.Sprintf("unknown(%T)", e)}
}
