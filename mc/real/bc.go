package real

import (
	"fmt"

	"github.com/goghcrow/yae/conv"
	"github.com/goghcrow/yae/fun"
	"github.com/goghcrow/yae/parser/ast"
	"github.com/goghcrow/yae/trans"
	"github.com/goghcrow/yae/types"
	"github.com/goghcrow/yae/val"
	"github.com/goghcrow/yae/vm"

	"verif/mc/gen"
	"verif/mc/ref"
)

// CompileBytecode runs the real pipeline (lex, parse, desugar, check) and compiles to bytecode
// through the read-only export hook. accepted=false when the program is rejected before code
// generation; refused=true when the VM's capacity assertion stopped code generation.
func CompileBytecode(h *Host, src string, env EnvSpec) (code *vm.VerifCode, accepted, refused bool, msg string) {
	defer func() {
		if r := recover(); r != nil {
			msg = fmt.Sprint(r)
			if accepted && msg == "overflow" {
				refused = true
			}
		}
	}()
	e := NewEngine(VMSwitch, h)
	parsed := trans.Desugar(e.Parse(src))
	tfn, vfn := types.NewEnv(), val.NewEnv()
	if h != nil {
		for _, v := range h.Vals {
			tfn.RegisterFun(v.Type)
			vfn.RegisterFun(v)
		}
	}
	for _, f := range fun.BuiltIn() {
		tfn.RegisterFun(f.Type)
		vfn.RegisterFun(f)
	}
	var tenv *types.Env
	if env.Rep == "raw" {
		tenv = env.RawTypeEnv()
	} else {
		hv, err := env.Host()
		if err != nil {
			return nil, false, false, err.Error()
		}
		if tenv, err = conv.TypeEnvOf(hv); err != nil {
			return nil, false, false, err.Error()
		}
	}
	types.Check(parsed, tenv.Inherit(tfn))
	accepted = true
	code = vm.VerifCompile(parsed, vfn)
	return
}

// CompileBytecodeRaw: the same for a hand-built raw type environment.
func CompileBytecodeRaw(h *Host, src string, tenv *types.Env) (code *vm.VerifCode, accepted, refused bool, msg string) {
	defer func() {
		if r := recover(); r != nil {
			msg = fmt.Sprint(r)
			if accepted && msg == "overflow" {
				refused = true
			}
		}
	}()
	e := NewEngine(VMSwitch, h)
	parsed := trans.Desugar(e.Parse(src))
	tfn, vfn := types.NewEnv(), val.NewEnv()
	if h != nil {
		for _, v := range h.Vals {
			tfn.RegisterFun(v.Type)
			vfn.RegisterFun(v)
		}
	}
	for _, f := range fun.BuiltIn() {
		tfn.RegisterFun(f.Type)
		vfn.RegisterFun(f)
	}
	types.Check(parsed, tenv.Inherit(tfn))
	accepted = true
	code = vm.VerifCompile(parsed, vfn)
	return
}

// CompileBytecodeAST: the same for a hand-built (core-form) tree and an empty environment — used
// for literals too wide to push through the quadratic lexer.
func CompileBytecodeAST(h *Host, tree ast.Expr) (code *vm.VerifCode, accepted, refused bool, msg string) {
	defer func() {
		if r := recover(); r != nil {
			msg = fmt.Sprint(r)
			if accepted && msg == "overflow" {
				refused = true
			}
		}
	}()
	tfn, vfn := types.NewEnv(), val.NewEnv()
	if h != nil {
		for _, v := range h.Vals {
			tfn.RegisterFun(v.Type)
			vfn.RegisterFun(v)
		}
	}
	for _, f := range fun.BuiltIn() {
		tfn.RegisterFun(f.Type)
		vfn.RegisterFun(f)
	}
	types.Check(tree, types.NewEnv().Inherit(tfn))
	accepted = true
	code = vm.VerifCompile(tree, vfn)
	return
}

// ToBCProgram exposes a compiled program to the reference verifier.
func ToBCProgram(c *vm.VerifCode) *ref.BCProgram {
	p := &ref.BCProgram{Code: c.Code()}
	for _, k := range c.Consts() {
		switch x := k.(type) {
		case string:
			p.Consts = append(p.Consts, ref.BCConst{Kind: "name", Name: x})
		case *types.Type:
			t, err := FromType(x, nil)
			if err != nil {
				p.Consts = append(p.Consts, ref.BCConst{Kind: "other", Name: err.Error()})
			} else {
				p.Consts = append(p.Consts, ref.BCConst{Kind: "type", Ty: t})
			}
		case *val.Val:
			if x == nil || x.Type == nil {
				p.Consts = append(p.Consts, ref.BCConst{Kind: "other", Name: "nil value"})
				continue
			}
			if x.Type.Kind == types.KFun {
				x := x
				p.Consts = append(p.Consts, ref.BCConst{Kind: "funval",
					Fun: func() (*gen.Ty, bool, error) {
						t, err := FromType(x.Type, nil)
						if err != nil {
							return nil, false, err
						}
						if t.Name == "thunk" && len(t.Params) == 0 {
							return nil, false, fmt.Errorf("a thunk where a registered function is required")
						}
						return t, x.Fun().Lazy, nil
					},
					Thunk: func() (*ref.BCProgram, *gen.Ty, error) {
						t, err := FromType(x.Type, nil)
						if err != nil {
							return nil, nil, err
						}
						if t.Name != "thunk" || len(t.Params) != 0 {
							return nil, nil, fmt.Errorf("function constant %s is not a thunk", t)
						}
						return ToBCProgram(vm.VerifThunkBody(x)), t.Ret, nil
					}})
				continue
			}
			t, err := FromType(x.Type, nil)
			if err != nil {
				p.Consts = append(p.Consts, ref.BCConst{Kind: "other", Name: err.Error()})
			} else {
				p.Consts = append(p.Consts, ref.BCConst{Kind: "value", Ty: t})
			}
		default:
			p.Consts = append(p.Consts, ref.BCConst{Kind: "other", Name: fmt.Sprintf("%T", k)})
		}
	}
	return p
}

// BCEnvFor builds the verifier environment for a program compiled against env.
func BCEnvFor(env EnvSpec) *ref.BCEnv {
	return &ref.BCEnv{OpName: vm.VerifOpcodeName, NumOps: vm.VerifOpcodeCount, Vars: env.Types()}
}
