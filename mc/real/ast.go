package real

import (
	"fmt"

	"github.com/goghcrow/yae/compiler"
	"github.com/goghcrow/yae/parser/ast"
	"github.com/goghcrow/yae/parser/pos"
	"github.com/goghcrow/yae/trans"
	"github.com/goghcrow/yae/val"

	"verif/mc/gen"
)

// ToExplicitAST builds the core-form tree of a term directly with the ast constructors: every
// call — whatever notation the term carries — becomes Call(ident, args); groups vanish. This is
// the "explicit call it stands for" that cannot always be written as source text (+(1,2)).
func ToExplicitAST(t *gen.Term) ast.Expr {
	switch t.Op {
	case "num":
		text := t.Text
		if text == "" {
			text = gen.FmtNum(t.N)
		}
		return ast.Num(text, pos.Unknown)
	case "str":
		text := t.Text
		if text == "" {
			text = gen.QuoteStr(t.S)
		}
		return ast.Str(text, pos.Unknown)
	case "bool":
		if t.B {
			return ast.True(pos.Unknown)
		}
		return ast.False(pos.Unknown)
	case "time":
		return ast.Time("'"+t.Text+"'", pos.Unknown)
	case "var":
		return ast.Var(t.Name, pos.Unknown)
	case "group":
		return ToExplicitAST(t.Args[0])
	case "list":
		els := make([]ast.Expr, len(t.Args))
		for i, a := range t.Args {
			els[i] = ToExplicitAST(a)
		}
		return ast.List(els, pos.Unknown)
	case "map":
		var ps []ast.Pair
		for i := 0; i+1 < len(t.Args); i += 2 {
			ps = append(ps, ast.Pair{Key: ToExplicitAST(t.Args[i]), Val: ToExplicitAST(t.Args[i+1])})
		}
		return ast.Map(ps, pos.Unknown)
	case "obj":
		fs := make([]ast.Field, len(t.Args))
		for i, a := range t.Args {
			fs[i] = ast.Field{Name: t.Fields[i], Val: ToExplicitAST(a)}
		}
		return ast.Obj(fs, pos.Unknown)
	case "sub":
		return ast.Subscript(ToExplicitAST(t.Args[0]), ToExplicitAST(t.Args[1]), pos.UnknownCol, pos.Unknown)
	case "mem":
		return ast.Member(ToExplicitAST(t.Args[0]), ast.Var(t.Name, pos.Unknown), pos.UnknownCol, pos.Unknown)
	case "call":
		args := make([]ast.Expr, len(t.Args))
		for i, a := range t.Args {
			args[i] = ToExplicitAST(a)
		}
		return ast.Call(ast.Var(t.Name, pos.Unknown), args, pos.UnknownCol, pos.Unknown)
	}
	panic("ToExplicitAST: " + t.Op)
}

// RunExplicit compiles a hand-built core tree through Expr.CompileExpr (the facade's pipeline
// after parsing) and runs the resulting closure on the value environment.
func RunExplicit(b Backend, h *Host, tree ast.Expr, env EnvSpec) (o *Obs) {
	o = &Obs{}
	if h != nil {
		*h.Trace = (*h.Trace)[:0]
	}
	e := NewEngine(b, h)
	var cl compiler.Closure
	func() {
		defer func() {
			if r := recover(); r != nil {
				o.CompileErr = fmt.Sprint(r) // CompileExpr reports rejection by panicking
			}
		}()
		cl = e.CompileExpr(tree, env.RawTypeEnv())
	}()
	if o.CompileErr != "" {
		return
	}
	func() {
		defer func() {
			if r := recover(); r != nil {
				o.RunErr = fmt.Sprint(r)
			}
		}()
		var v *val.Val
		v = cl(env.RawValEnv())
		o.Val = v
	}()
	if h != nil {
		o.Trace = append([]string(nil), *h.Trace...)
	}
	return
}

// Desugar applies the real desugarer, reporting a panic as an error text.
func Desugar(e ast.Expr) (out ast.Expr, err string) {
	defer func() {
		if r := recover(); r != nil {
			out, err = nil, fmt.Sprint(r)
		}
	}()
	return trans.Desugar(e), ""
}
