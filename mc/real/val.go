package real

import (
	"fmt"
	"reflect"
	"strconv"
	"time"

	"github.com/goghcrow/yae/types"
	"github.com/goghcrow/yae/val"

	"verif/mc/gen"
	"verif/mc/ref"
)

// ToVal builds a real value from a reference value with the library's own constructors.
// Objects store their fields in the reference value's written order.
func ToVal(v *ref.V) *val.Val {
	switch v.T.K {
	case gen.KNum:
		return val.Num(v.N)
	case gen.KStr:
		return val.Str(v.S)
	case gen.KBool:
		return val.Bool(v.B)
	case gen.KTime:
		return val.Time(v.Tm)
	case gen.KList:
		ty := ToType(v.T, nil)
		l := val.List(ty.List(), len(v.L)).List()
		for i, e := range v.L {
			l.V[i] = ToVal(e)
		}
		return l.Vl()
	case gen.KMap:
		ty := ToType(v.T, nil)
		m := val.Map(ty.Map()).Map()
		for i, k := range v.MK {
			m.V[ToVal(k).Key()] = ToVal(v.MV[i])
		}
		return m.Vl()
	case gen.KObj:
		fs := make([]types.Field, len(v.OF))
		vs := make([]*val.Val, len(v.OF))
		for i, n := range v.OF {
			vs[i] = ToVal(v.OV[i])
			fs[i] = types.Field{Name: n, Val: vs[i].Type}
		}
		o := val.Obj(types.Obj(fs).Obj()).Obj()
		copy(o.V, vs)
		return o.Vl()
	case gen.KMaybe:
		if v.P == nil {
			return val.Nothing(ToType(v.T.El, nil))
		}
		p := ToVal(v.P)
		return val.Just(p.Type, p)
	case gen.KFun:
		if v.Fn != nil {
			if rv, ok := EnvFunVals[v.Fn.Tag]; ok {
				return rv
			}
		}
	}
	panic("ToVal: unsupported " + v.T.String())
}

// FromVal reads a real value through its exported fields and checks well-formedness on the way:
// no nil component, every component has the type its container's own type declares, object
// arity matches its type, map keys carry the key type's tag. The returned value's T is the type
// the real value carries.
func FromVal(v *val.Val) (out *ref.V, err error) {
	defer func() {
		if r := recover(); r != nil {
			out, err = nil, fmt.Errorf("reading value: %v", r)
		}
	}()
	return fromVal(v, 0)
}

func fromVal(v *val.Val, depth int) (*ref.V, error) {
	if v == nil {
		return nil, fmt.Errorf("nil value")
	}
	if depth > 20000 {
		return nil, fmt.Errorf("value nesting > 20000")
	}
	if v.Type == nil {
		return nil, fmt.Errorf("value with nil type")
	}
	ty, err := FromType(v.Type, nil)
	if err != nil {
		return nil, fmt.Errorf("value type: %v", err)
	}
	switch v.Type.Kind {
	case types.KNum:
		return &ref.V{T: ty, N: v.Num().V}, nil
	case types.KStr:
		s := v.Str().V
		if len(s) > 1<<26 {
			return nil, fmt.Errorf("string of %d bytes", len(s))
		}
		return &ref.V{T: ty, S: string(append([]byte(nil), s...))}, nil
	case types.KBool:
		return &ref.V{T: ty, B: v.Bool().V}, nil
	case types.KTime:
		return &ref.V{T: ty, Tm: v.Time().V}, nil
	case types.KList:
		out := &ref.V{T: ty}
		for i, e := range v.List().V {
			ev, err := fromVal(e, depth+1)
			if err != nil {
				return nil, fmt.Errorf("list element %d: %v", i, err)
			}
			if !gen.Equal(ty.El, ev.T) {
				return nil, fmt.Errorf("list element %d has type %s inside %s", i, ev.T, ty)
			}
			out.L = append(out.L, ev)
		}
		return out, nil
	case types.KMap:
		out := &ref.V{T: ty}
		rm := reflect.ValueOf(v.Map().V)
		// iterate in sorted key order so that reading is independent of the map seed
		keys := rm.MapKeys()
		sortKeys(keys)
		for _, rk := range keys {
			tag := types.Kind(rk.Field(0).Int())
			text := rk.Field(1).String()
			kv, err := keyToV(tag, text)
			if err != nil {
				return nil, fmt.Errorf("map key %q: %v", text, err)
			}
			if !gen.Equal(ty.Key, kv.T) {
				return nil, fmt.Errorf("map key %q has type %s inside %s", text, kv.T, ty)
			}
			e := v.Map().V[rk.Interface().(val.Key)]
			ev, err := fromVal(e, depth+1)
			if err != nil {
				return nil, fmt.Errorf("map value at %q: %v", text, err)
			}
			if !gen.Equal(ty.Val, ev.T) {
				return nil, fmt.Errorf("map value at %q has type %s inside %s", text, ev.T, ty)
			}
			out.MK = append(out.MK, kv)
			out.MV = append(out.MV, ev)
		}
		return out, nil
	case types.KObj:
		o := v.Obj()
		if len(o.V) != len(ty.Fields) {
			return nil, fmt.Errorf("object has %d slots for type %s", len(o.V), ty)
		}
		out := &ref.V{T: ty}
		for i, e := range o.V {
			ev, err := fromVal(e, depth+1)
			if err != nil {
				return nil, fmt.Errorf("field %s: %v", ty.Fields[i].Name, err)
			}
			if !gen.Equal(ty.Fields[i].T, ev.T) {
				return nil, fmt.Errorf("field %s has type %s inside %s", ty.Fields[i].Name, ev.T, ty)
			}
			out.OF = append(out.OF, ty.Fields[i].Name)
			out.OV = append(out.OV, ev)
		}
		return out, nil
	case types.KMaybe:
		mb := v.Maybe()
		if mb.V == nil {
			return &ref.V{T: ty}, nil
		}
		pv, err := fromVal(mb.V, depth+1)
		if err != nil {
			return nil, fmt.Errorf("optional payload: %v", err)
		}
		if !gen.Equal(ty.El, pv.T) {
			return nil, fmt.Errorf("optional payload has type %s inside %s", pv.T, ty)
		}
		return &ref.V{T: ty, P: pv}, nil
	case types.KFun:
		return &ref.V{T: ty}, nil
	}
	return nil, fmt.Errorf("value of kind %d", int(v.Type.Kind))
}

func sortKeys(keys []reflect.Value) {
	for i := 1; i < len(keys); i++ {
		for j := i; j > 0; j-- {
			a, b := keys[j-1], keys[j]
			if a.Field(1).String() > b.Field(1).String() {
				keys[j-1], keys[j] = b, a
			} else {
				break
			}
		}
	}
}

func keyToV(tag types.Kind, text string) (*ref.V, error) {
	switch tag {
	case types.KBool:
		b, err := strconv.ParseBool(text)
		return ref.BoolV(b), err
	case types.KNum:
		n, err := strconv.ParseFloat(text, 64)
		return ref.NumV(n), err
	case types.KStr:
		s, err := strconv.Unquote(text)
		return ref.StrV(s), err
	case types.KTime:
		s, err := strconv.Unquote(text)
		if err != nil {
			return nil, err
		}
		t, err := ParseGoTimeString(s)
		return ref.TimeV(t), err
	}
	return nil, fmt.Errorf("key tag %d is not a primitive", int(tag))
}

// ParseGoTimeString parses time.Time.String() output (without monotonic reading).
func ParseGoTimeString(s string) (time.Time, error) {
	if i := indexMono(s); i >= 0 {
		s = s[:i]
	}
	return time.Parse("2006-01-02 15:04:05.999999999 -0700 MST", s)
}

func indexMono(s string) int {
	for i := 0; i+3 <= len(s); i++ {
		if s[i:i+3] == " m=" {
			return i
		}
	}
	return -1
}
