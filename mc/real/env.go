package real

import (
	"fmt"
	"reflect"
	"time"

	"github.com/goghcrow/yae/types"
	"github.com/goghcrow/yae/val"

	"verif/mc/gen"
	"verif/mc/ref"
)

// Binding is one name of an environment with its reference value.
type Binding struct {
	Name string `json:"name"`
	V    *ref.V `json:"v"`
}

// EnvSpec describes an environment and the representation it is handed over in.
type EnvSpec struct {
	Rep   string    `json:"rep"` // raw | map | struct
	Binds []Binding `json:"binds"`
}

// PadTags: struct tags are written with blanks and mixed case around their parts
// (`yae:" name , Maybe "`), which the conversion must read like `yae:"name,maybe"`.
var PadTags bool

func yaeTag(name string, maybe bool) string {
	if PadTags {
		if maybe {
			return `yae:" ` + name + ` , Maybe "`
		}
		return `yae:" ` + name + ` "`
	}
	if maybe {
		return `yae:"` + name + `,maybe"`
	}
	return `yae:"` + name + `"`
}

func (e EnvSpec) Types() map[string]*gen.Ty {
	m := map[string]*gen.Ty{}
	for _, b := range e.Binds {
		m[b.Name] = b.V.T
	}
	return m
}

func (e EnvSpec) Values() map[string]*ref.V {
	m := map[string]*ref.V{}
	for _, b := range e.Binds {
		m[b.Name] = b.V
	}
	return m
}

// RawTypeEnv builds a fresh *types.Env.
func (e EnvSpec) RawTypeEnv() *types.Env {
	env := types.NewEnv()
	for _, b := range e.Binds {
		env.Put(b.Name, ToType(b.V.T, nil))
	}
	return env
}

// RawValEnv builds a fresh *val.Env.
func (e EnvSpec) RawValEnv() *val.Env {
	env := val.NewEnv()
	for _, b := range e.Binds {
		env.Put(b.Name, ToVal(b.V))
	}
	return env
}

// Host returns the Go value handed to Compile / the Callable for the map and struct
// representations (the same value serves as compile-time sample and run-time data).
func (e EnvSpec) Host() (v interface{}, err error) {
	defer func() {
		if r := recover(); r != nil {
			v, err = nil, fmt.Errorf("building host env: %v", r)
		}
	}()
	switch e.Rep {
	case "map":
		m := map[string]interface{}{}
		for _, b := range e.Binds {
			m[b.Name] = ToGo(b.V).Interface()
		}
		return m, nil
	case "struct":
		names := make([]string, len(e.Binds))
		vals := make([]*ref.V, len(e.Binds))
		for i, b := range e.Binds {
			names[i], vals[i] = b.Name, b.V
		}
		return ToGo(ref.ObjV(names, vals...)).Interface(), nil
	}
	return nil, fmt.Errorf("no host form for rep %q", e.Rep)
}

// CompileArg / CallArg: what is passed to Expr.Compile and to the Callable.
func (e EnvSpec) CompileArg() (interface{}, error) {
	if e.Rep == "raw" {
		return e.RawTypeEnv(), nil
	}
	return e.Host()
}

func (e EnvSpec) CallArg() (interface{}, error) {
	if e.Rep == "raw" {
		return e.RawValEnv(), nil
	}
	return e.Host()
}

// HostRepresentable: can every binding be expressed as plain Go data of this representation?
// (⊥ element types and function values exist only in raw environments; optionals only as struct
// fields.)
func HostRepresentable(t *gen.Ty, top bool, rep string) bool {
	switch t.K {
	case gen.KBot, gen.KTop, gen.KVar, gen.KFun, gen.KTuple:
		return false
	case gen.KMaybe:
		if top && rep != "struct" {
			return false
		}
		if t.El.K == gen.KMaybe {
			return false
		}
		return HostRepresentable(t.El, false, rep)
	case gen.KList:
		return t.El.K != gen.KMaybe && HostRepresentable(t.El, false, rep)
	case gen.KMap:
		return t.Val.K != gen.KMaybe && HostRepresentable(t.Key, false, rep) && HostRepresentable(t.Val, false, rep)
	case gen.KObj:
		for _, f := range t.Fields {
			if !HostRepresentable(f.T, true, "struct") {
				return false
			}
		}
		return true
	}
	return true
}

var timeType = reflect.TypeOf(time.Time{})

// GoType maps a type description to the Go type used for host data.
func GoType(t *gen.Ty) reflect.Type {
	switch t.K {
	case gen.KNum:
		return reflect.TypeOf(float64(0))
	case gen.KStr:
		return reflect.TypeOf("")
	case gen.KBool:
		return reflect.TypeOf(false)
	case gen.KTime:
		return timeType
	case gen.KList:
		return reflect.SliceOf(GoType(t.El))
	case gen.KMap:
		return reflect.MapOf(GoType(t.Key), GoType(t.Val))
	case gen.KMaybe:
		return reflect.PointerTo(GoType(t.El))
	case gen.KObj:
		fs := make([]reflect.StructField, len(t.Fields))
		for i, f := range t.Fields {
			tag := yaeTag(f.Name, f.T.K == gen.KMaybe)
			fs[i] = reflect.StructField{Name: fmt.Sprintf("F%d", i), Type: GoType(f.T), Tag: reflect.StructTag(tag)}
		}
		return reflect.StructOf(fs)
	}
	panic("GoType: " + t.String())
}

// ToGo builds host data for a reference value. Struct fields follow the value's written order.
func ToGo(v *ref.V) reflect.Value {
	switch v.T.K {
	case gen.KNum:
		return reflect.ValueOf(v.N)
	case gen.KStr:
		return reflect.ValueOf(v.S)
	case gen.KBool:
		return reflect.ValueOf(v.B)
	case gen.KTime:
		return reflect.ValueOf(v.Tm)
	case gen.KList:
		els := make([]reflect.Value, len(v.L))
		uniform := true
		for i, e := range v.L {
			els[i] = ToGo(e)
			if els[i].Type() != els[0].Type() {
				uniform = false
			}
		}
		// elements of one type whose Go shapes differ (objects written in different field orders)
		// can only travel in an interface-typed slice
		var s reflect.Value
		switch {
		case len(els) == 0:
			s = reflect.MakeSlice(GoType(v.T), 0, 0)
		case uniform:
			s = reflect.MakeSlice(reflect.SliceOf(els[0].Type()), len(els), len(els))
		default:
			s = reflect.MakeSlice(reflect.TypeOf([]interface{}{}), len(els), len(els))
		}
		for i, e := range els {
			s.Index(i).Set(e)
		}
		return s
	case gen.KMap:
		vals := make([]reflect.Value, len(v.MV))
		uniform := true
		for i, e := range v.MV {
			vals[i] = ToGo(e)
			if vals[i].Type() != vals[0].Type() {
				uniform = false
			}
		}
		var m reflect.Value
		switch {
		case len(vals) == 0:
			m = reflect.MakeMap(GoType(v.T))
		case uniform:
			m = reflect.MakeMap(reflect.MapOf(GoType(v.T.Key), vals[0].Type()))
		default:
			m = reflect.MakeMap(reflect.MapOf(GoType(v.T.Key), reflect.TypeOf((*interface{})(nil)).Elem()))
		}
		for i, k := range v.MK {
			m.SetMapIndex(ToGo(k), vals[i])
		}
		return m
	case gen.KObj:
		// the Go struct type follows the value's own field order
		fvals := make([]reflect.Value, len(v.OF))
		sf := make([]reflect.StructField, len(v.OF))
		for i, n := range v.OF {
			fvals[i] = ToGo(v.OV[i])
			tag := yaeTag(n, v.OV[i].T.K == gen.KMaybe)
			sf[i] = reflect.StructField{Name: fmt.Sprintf("F%d", i), Type: fvals[i].Type(), Tag: reflect.StructTag(tag)}
		}
		st := reflect.New(reflect.StructOf(sf)).Elem()
		for i := range v.OF {
			st.Field(i).Set(fvals[i])
		}
		return st
	case gen.KMaybe:
		if v.P == nil {
			return reflect.Zero(reflect.PointerTo(GoType(v.T.El)))
		}
		pv := ToGo(v.P)
		p := reflect.New(pv.Type())
		p.Elem().Set(pv)
		return p
	}
	panic("ToGo: " + v.T.String())
}
