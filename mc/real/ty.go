// Package real adapts the code under test (github.com/goghcrow/yae) to the harness's own
// descriptions: building real types / values / environments from descriptions, and reading real
// results back through exported fields only.
package real

import (
	"fmt"

	"github.com/goghcrow/yae/types"

	"verif/mc/gen"
)

// Vars maps the harness's variable names to real type variables (and back).
type Vars struct {
	ByName map[string]*types.Type
	Back   map[string]string // real name -> harness name
}

func NewVars() *Vars { return &Vars{map[string]*types.Type{}, map[string]string{}} }

func (v *Vars) Get(name string) *types.Type {
	if t, ok := v.ByName[name]; ok {
		return t
	}
	t := types.TyVar(name)
	v.ByName[name] = t
	v.Back[t.TyVar().Name] = name
	return t
}

// ToType builds a tree-shaped real type: every composite node is a fresh object, every
// occurrence of one variable is the same pointer (the way built-in signatures are written).
func ToType(t *gen.Ty, vars *Vars) *types.Type {
	switch t.K {
	case gen.KNum:
		return types.Num
	case gen.KStr:
		return types.Str
	case gen.KBool:
		return types.Bool
	case gen.KTime:
		return types.Time
	case gen.KBot:
		return types.Bottom
	case gen.KTop:
		return types.Top
	case gen.KVar:
		return vars.Get(t.Name)
	case gen.KList:
		return types.List(ToType(t.El, vars))
	case gen.KMaybe:
		return types.Maybe(ToType(t.El, vars))
	case gen.KMap:
		return types.Map(ToType(t.Key, vars), ToType(t.Val, vars))
	case gen.KObj:
		fs := make([]types.Field, len(t.Fields))
		for i, f := range t.Fields {
			fs[i] = types.Field{Name: f.Name, Val: ToType(f.T, vars)}
		}
		return types.Obj(fs)
	case gen.KFun:
		ps := make([]*types.Type, len(t.Params))
		for i, p := range t.Params {
			ps[i] = ToType(p, vars)
		}
		return types.Fun(t.Name, ps, ToType(t.Ret, vars))
	case gen.KTuple:
		ps := make([]*types.Type, len(t.Params))
		for i, p := range t.Params {
			ps[i] = ToType(p, vars)
		}
		return types.Tuple(ps)
	}
	panic("ToType: bad kind")
}

// ToTypeShared builds a DAG-shaped real type: structurally equal sub-descriptions (by written
// form) become one shared pointer, the way `listT` is reused in the built-in `==`.
func ToTypeShared(t *gen.Ty, vars *Vars, memo map[string]*types.Type) *types.Type {
	key := t.String()
	if r, ok := memo[key]; ok {
		return r
	}
	var r *types.Type
	switch t.K {
	case gen.KList:
		r = types.List(ToTypeShared(t.El, vars, memo))
	case gen.KMaybe:
		r = types.Maybe(ToTypeShared(t.El, vars, memo))
	case gen.KMap:
		r = types.Map(ToTypeShared(t.Key, vars, memo), ToTypeShared(t.Val, vars, memo))
	case gen.KObj:
		fs := make([]types.Field, len(t.Fields))
		for i, f := range t.Fields {
			fs[i] = types.Field{Name: f.Name, Val: ToTypeShared(f.T, vars, memo)}
		}
		r = types.Obj(fs)
	case gen.KFun:
		ps := make([]*types.Type, len(t.Params))
		for i, p := range t.Params {
			ps[i] = ToTypeShared(p, vars, memo)
		}
		r = types.Fun(t.Name, ps, ToTypeShared(t.Ret, vars, memo))
	case gen.KTuple:
		ps := make([]*types.Type, len(t.Params))
		for i, p := range t.Params {
			ps[i] = ToTypeShared(p, vars, memo)
		}
		r = types.Tuple(ps)
	default:
		r = ToType(t, vars)
	}
	memo[key] = r
	return r
}

// FromType reads a real type back through its exported fields. It fails on nil components,
// unknown kinds, cyclic structure and malformed object indexes instead of panicking.
func FromType(rt *types.Type, vars *Vars) (t *gen.Ty, err error) {
	defer func() {
		if r := recover(); r != nil {
			t, err = nil, fmt.Errorf("reading type: %v", r)
		}
	}()
	return fromType(rt, vars, map[*types.Type]bool{}, 0)
}

func fromType(rt *types.Type, vars *Vars, onPath map[*types.Type]bool, depth int) (*gen.Ty, error) {
	if rt == nil {
		return nil, fmt.Errorf("nil type")
	}
	if depth > 20000 {
		return nil, fmt.Errorf("type nesting > 20000")
	}
	switch rt.Kind {
	case types.KNum:
		return gen.Num, nil
	case types.KStr:
		return gen.Str, nil
	case types.KBool:
		return gen.Bool, nil
	case types.KTime:
		return gen.Time, nil
	case types.KBot:
		return gen.Bot, nil
	case types.KTop:
		return gen.Top, nil
	case types.KTyVar:
		n := rt.TyVar().Name
		if vars != nil {
			if my, ok := vars.Back[n]; ok {
				return gen.Var(my), nil
			}
		}
		return gen.Var("?" + n), nil
	}
	if onPath[rt] {
		return nil, fmt.Errorf("cyclic type")
	}
	onPath[rt] = true
	defer delete(onPath, rt)
	switch rt.Kind {
	case types.KList:
		el, err := fromType(rt.List().El, vars, onPath, depth+1)
		if err != nil {
			return nil, err
		}
		return gen.List(el), nil
	case types.KMaybe:
		el, err := fromType(rt.Maybe().Elem, vars, onPath, depth+1)
		if err != nil {
			return nil, err
		}
		return gen.Maybe(el), nil
	case types.KMap:
		k, err := fromType(rt.Map().Key, vars, onPath, depth+1)
		if err != nil {
			return nil, err
		}
		v, err := fromType(rt.Map().Val, vars, onPath, depth+1)
		if err != nil {
			return nil, err
		}
		return gen.Map(k, v), nil
	case types.KObj:
		o := rt.Obj()
		fs := make([]gen.FieldTy, len(o.Fields))
		if len(o.Index) != len(o.Fields) {
			return nil, fmt.Errorf("object type index has %d entries for %d fields", len(o.Index), len(o.Fields))
		}
		for i, f := range o.Fields {
			ft, err := fromType(f.Val, vars, onPath, depth+1)
			if err != nil {
				return nil, err
			}
			if j, ok := o.Index[f.Name]; !ok || j != i {
				return nil, fmt.Errorf("object type index of %q is %d, field is at %d", f.Name, j, i)
			}
			fs[i] = gen.FieldTy{Name: f.Name, T: ft}
		}
		return gen.Obj(fs...), nil
	case types.KFun:
		f := rt.Fun()
		ps := make([]*gen.Ty, len(f.Param))
		for i, p := range f.Param {
			pt, err := fromType(p, vars, onPath, depth+1)
			if err != nil {
				return nil, err
			}
			ps[i] = pt
		}
		r, err := fromType(f.Return, vars, onPath, depth+1)
		if err != nil {
			return nil, err
		}
		return gen.Fun(f.Name, ps, r), nil
	default:
		// tuple kind is unexported (kTuple); recognise it by elimination
		if rt.Kind.String() == "Tuple" {
			tv := rt.Tuple().Val
			ps := make([]*gen.Ty, len(tv))
			for i, p := range tv {
				pt, err := fromType(p, vars, onPath, depth+1)
				if err != nil {
					return nil, err
				}
				ps[i] = pt
			}
			return gen.Tuple(ps...), nil
		}
		return nil, fmt.Errorf("unknown type kind %d", int(rt.Kind))
	}
}
