package racepass

import (
	"sync"
	"testing"

	"verif/mc/props"
)

// TestRacePass runs the thread bodies of the C14 scenarios on plain goroutines (no scheduler, hooks
// inert) so that Go's race detector sees the real memory accesses.
func TestRacePass(t *testing.T) {
	for _, sc := range props.C14Scenarios() {
		// the concurrent iterations come BEFORE the solo runs: lazily initialised process-wide state
		// is then first touched by several goroutines at once
		n := len(sc.Build())
		solo := make([]string, n)
		all := make([][]string, 0, 60)
		for iter := 0; iter < 60; iter++ {
			bodies := sc.Build()
			outs := make([]string, len(bodies))
			var wg sync.WaitGroup
			start := make(chan struct{})
			for i, b := range bodies {
				wg.Add(1)
				go func(i int, b func() string) {
					defer wg.Done()
					<-start
					outs[i] = b()
				}(i, b)
			}
			close(start)
			wg.Wait()
			all = append(all, outs)
		}
		for i := 0; i < n; i++ {
			solo[i] = sc.Build()[i]()
		}
		for _, outs := range all {
			for i := range outs {
				if outs[i] != solo[i] {
					t.Fatalf("OUTCOME-MISMATCH scenario %s thread %d: %q, alone %q", sc.Name, i, outs[i], solo[i])
				}
			}
		}
	}
}
