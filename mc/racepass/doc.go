// Package racepass holds the free-running -race pass of property C14 (see racepass_test.go).
package racepass
