# sourced by every script: offline Go environment, deterministic zone
export GOFLAGS=-mod=mod GOPROXY=off GOSUMDB=off GOTOOLCHAIN=local CGO_ENABLED=1
export TZ=UTC
export VERIF_ROOT="$(cd "$(dirname "${BASH_SOURCE[0]}")/.." && pwd)"
export VERIF_REPO="${VERIF_REPO:-/repo}"
