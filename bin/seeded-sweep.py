#!/usr/bin/env python3
"""Re-runs every kept seeded change against the check of the property it breaks (plus any other
check recorded as detecting it) and refreshes seeded/<id>/meta.json.  usage: seeded-sweep.py [id...]"""
import glob, json, os, subprocess, sys, time
VERIF = os.path.dirname(os.path.dirname(os.path.abspath(__file__)))
ENV = dict(os.environ, GOFLAGS="-mod=mod", GOPROXY="off", GOSUMDB="off", GOTOOLCHAIN="local")

def sh(cmd, cwd):
    p = subprocess.run(cmd, shell=True, cwd=cwd, env=ENV, stdout=subprocess.PIPE, stderr=subprocess.STDOUT, text=True)
    return p.returncode, p.stdout

ids = sys.argv[1:] or sorted(os.path.basename(os.path.dirname(p)) for p in glob.glob(os.path.join(VERIF, "seeded", "*", "meta.json")))
rc, o = sh("git status --short", "/repo")
if o.strip():
    raise SystemExit("/repo dirty: " + o)
rows = []
for sid in ids:
    d = os.path.join(VERIF, "seeded", sid)
    meta = json.load(open(os.path.join(d, "meta.json")))
    owner = meta.get("breaks_property") or sid.split("-")[0]
    props = [owner] + [p for p in meta.get("checks_run_against_it", {}) if p != owner]
    rc, o = sh("git apply --check %s/patch.diff && git apply %s/patch.diff" % (d, d), "/repo")
    if rc != 0:
        meta["applies_to_current_repo"] = False
        meta["apply_error"] = o[-300:]
        json.dump(meta, open(os.path.join(d, "meta.json"), "w"), indent=1, ensure_ascii=False)
        rows.append((sid, "PATCH DOES NOT APPLY"))
        continue
    res = {}
    try:
        for p in props:
            t0 = time.time()
            rc, o = sh("bin/check %s quick" % p, VERIF)
            res[p] = {"exit": rc, "violation_lines": len([l for l in o.splitlines() if l.startswith("VIOLATION")]),
                      "first": [l.strip()[:300] for l in o.splitlines() if l.startswith("  [")][:2], "wall_s": round(time.time() - t0, 1)}
    finally:
        sh("git checkout -- . && git clean -fdq", "/repo")
    meta["applies_to_current_repo"] = True
    meta["checks_run_against_it"] = res
    meta["detected_by"] = [p for p, r in res.items() if r["exit"] == 1]
    meta["swept_at_repo_commit"] = subprocess.check_output(["git", "-C", "/repo", "rev-parse", "--short", "HEAD"], text=True).strip()
    json.dump(meta, open(os.path.join(d, "meta.json"), "w"), indent=1, ensure_ascii=False)
    rows.append((sid, {p: r["exit"] for p, r in res.items()}))
    print(sid, rows[-1][1], flush=True)
json.dump(rows, open(os.path.join(VERIF, "seeded", "SWEEP.json"), "w"), indent=1)
