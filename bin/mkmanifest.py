#!/usr/bin/env python3
"""Regenerates /verif/MANIFEST.json from the table below (kept in one place so it stays valid)."""
import json, os, subprocess
ROOT = os.path.dirname(os.path.dirname(os.path.abspath(__file__)))

def hook_commits():
    try:
        out = subprocess.check_output(["git", "-C", "/repo", "log", "--format=%H %s"], text=True)
        return [l.split()[0] for l in out.splitlines() if " verif hooks" in l or l.split(" ", 1)[1].startswith("verif hooks")]
    except Exception:
        return []

# id -> (engine, category, technique, level text, level note, design ref)
CHECKS = {

 "C01": ("enum", "model_checking",
         "bounded-exhaustive type-directed program enumeration executed on the real pipeline and 4 back ends; result values walked through exported fields",
         "Every well-typed program of the object alphabet up to the depth bound (object literals in all field permutations inside lists, maps, branches and polymorphic calls, projected by member / subscript; raw, host-map and host-struct environments whose objects are stored in both field orders; programs compiled against one field order and invoked with the other; one Callable per back end invoked along histories of <= 4 environments whose objects alternate field order; literals of 41..600 components; host containers whose elements would differ in type) is compiled and run on the four back ends; the real inferred type, the dynamic type of the result and the declared type of every component must agree and no component may be nil. A worker that dies while reading a value is attributed to the program (isolated re-runs until 3 reproduce).",
         "Trusted: the value reader (mc/real/val.go) and the term renderer. Bound: depth 2 with one nested operand (quick) / full depth 2, depth 3 for num results (thorough); function-typed values not covered.",
         "DESIGN.md §4 C01"),
 "C02": ("enum", "model_checking",
         "bounded-exhaustive enumeration of programs over the partial-operation alphabet, each execution compared with an independent reference evaluator's predicted value / failure kind",
         "All programs up to the depth bound over boundary indices (negative, fractional, len, 2^53, 1e300, NaN, ±Inf), present / absent map keys, zero / fractional / huge modulo divisors, valid / invalid patterns, get-with-default forms, empty containers and && / || / ?: guards whose unselected operand is undefined (also through lazy function values called dynamically), plus linear size sweeps past the VM's 42-slot stack and 8/16-bit operands, are run on the four back ends. A value must be returned exactly when the reference defines one; a failure must be the documented kind (index / key / modulo-by-zero / pattern); anything else (Go runtime error, nil dereference, 'unreachable', unsupported opcode, empty Pop) is an internal fault.",
         "Trusted: mc/ref evaluator (README semantics). Index / modulo truncation is only specified inside the int64 range; outside it the oracle demands 'documented failure or value'.",
         "DESIGN.md §4 C02"),
 "C03": ("enum", "model_checking",
         "bounded-exhaustive differential execution of every enumerated program on the four back ends (call-threaded loop through the build-tag hook)",
         "The union of the C01 / C02 / C04 / C06 corpora and targeted families (duplicate and numerically equal map keys, 255 / 256 arguments, deep stacks inside thunks, branches longer than 255 and 65535 bytes, thunk bodies with many constants) is run on the VM switch loop, the VM call-threaded loop, the closure compiler and the AST interpreter with user-registered strict / lazy / polymorphic functions; outcome class, value (structural, own reader) and ordered host-call trace must agree pairwise; a compile-time refusal is only accepted from the VM as its capacity assertion.",
         "No reference model involved. Known finding: the call-threaded loop's 1024-instruction cap (KNOWN_FINDINGS.json).",
         "DESIGN.md §4 C03"),
 "C04": ("enum", "model_checking",
         "bounded-exhaustive argument grids and literal forms executed on the real code, every result compared element by element with an independent reference evaluator",
         "For every documented overload (polymorphic ones instantiated over five element types and two map shapes) the full grid of argument tuples from the boundary pools (tolerance edges, -0, beyond 2^53 / 2^63, ±Inf, NaN; non-ASCII / combining / 4-byte strings; duplicate-laden lists; maps; objects in both field orders; optionals; equal and adjacent instants) is evaluated as raw environment data (also with every argument read again after the call: {r: f(x0,x1), p0: x0, p1: x1}), as host map data and as literals on the four back ends; every comparison operator under every negation; pairs of literals in one program that are equal, within the tolerance or just outside it; every numeric literal text of <= 5 (thorough 6) characters accepted by the documented grammar, every string escape, absolute date-time forms over a calendar grid, and depth-2 compositions are evaluated as well. Values are compared bit-exactly (NaN ≡ NaN), never with the language's tolerance.",
         "Trusted: mc/ref (README semantics; rendering formats mirrored from the documented implementation), Go's math / regexp / time.Parse as shared library code. Relative time forms excluded.",
         "DESIGN.md §4 C04"),
 "C05": ("enum", "model_checking",
         "bounded-exhaustive UNTYPED term enumeration and all registration orders of extra overloads, accept / reject and inferred type compared with an independent reference checker",
         "All terms of depth <= 1 over 12 atoms × 30 constructors, all depth-2 terms with one nested operand, all single-position type-breaking replacements of the well-typed small-alphabet programs, a variable of each of 16 types in 23 contexts, all pairs of five function-typed variables under 8 contexts, every reserved word bound in the environment and used as a variable, and nine overload families (each written with separate and with shared type-variable objects) registered in every order (k! for k <= 4) and every subset, and also registered AFTER the engine's first compilation with the program compiled before and after against one shared *types.Env: the reference checker (syntax-directed, one-way matching, written from the README rules) must agree with types.Infer on accept / reject and on the inferred type, Expr.Compile must agree on two back ends, and no accepted program may raise a type error at run time.",
         "Trusted: mc/ref/check.go. The ⊥ rules and 'first instantiating poly overload wins' are mirrored as documented in DESIGN.md §7.",
         "DESIGN.md §4 C05"),
 "C06": ("enum", "model_checking",
         "bounded-exhaustive enumeration of effect-recording and poisoned programs; ordered host-call trace compared with the reference evaluator on 4 back ends",
         "Tracer calls (numbered in source order) and failing terms are placed in every operand position of if, ?:, &&, ||, user-registered lazy and / or / second / twice, strict calls, list / map / object literals (map literals with repeated keys), list and map subscripts, dynamic calls of strict and lazy function values (incl. a lazy user conditional), nested up to the depth bound, plus hand-built three-level nestings of lazy calls inside thunks; on each of the four back ends the ordered trace of host-function invocations and the outcome class must equal the reference evaluator's (condition once, selected operand only, strict operands once and left to right, key before value).",
         "Trusted: mc/ref evaluator's evaluation order (README / property statement).",
         "DESIGN.md §4 C06"),

 "C08": ("enum", "model_checking",
         "bounded-exhaustive enumeration of operator tables × token sequences, parsed by the real lexer+parser and by an independent shunting-yard reference parser; trees and node spans compared",
         "For 81 (thorough 729) operator tables over two infix symbols × {left, right, non-associative} × binding powers {3, 3.5, 4}, one prefix and one postfix symbol, plus the built-in table (also over a parenthesis / comparison alphabet and a conditional-inside-literal alphabet {a ? : [ ] , +}, 7 tokens), three declaration orders of a table whose symbols are prefixes of one another, 45 tables with powers around the grammar's own call / member powers, an identifier-like-operator table and a literal-forms table, every token sequence up to the length bound (5 tokens over the 13-symbol alphabet incl. ( ) ? : . [ ] , ; 7 / 9 tokens over the operator-only and ternary alphabets) is parsed by the real code and by the reference (hand-written scanner + two-stack operator-precedence parser): accept / reject, the tree and every node's span (rune range, line, column; one family is newline-separated) must agree. Non-associative self-chains must be rejected in every context. For every ninth table one parser object parses all sequences of a case and must agree with a fresh parser.",
         "Trusted: mc/ref/lex.go + mc/ref/parse.go (a different parsing algorithm driven only by the declarations). Bound: <= 2 infix symbols per table, one role per symbol except the built-in table.",
         "DESIGN.md §4 C08"),
 "C09": ("enum", "model_checking",
         "bounded-exhaustive enumeration of input strings × operator sets through the real lexer, checked against model-free span invariants and a hand-written reference scanner",
         "All strings of <= 4 (thorough 5) atoms over a 35-atom mixed alphabet (keywords, ASCII / non-ASCII letters, digits and radix prefixes, exponent letters, dot, operator characters, quotes, backslash, white space incl. newline) under thirteen operator sets (the prefix-overlapping set in three declaration orders; built-in, with the non-ASCII operator character ˆ, prefix-overlapping symbolic, containing . and ?, identifier-like with common prefixes, non-ASCII identifier-like, empty, and two pairs of sets whose symbols concatenate to the same text): tokens must be in source order, non-overlapping, separated only by white space, with runes[Idx:IdxEnd] == Lexeme and Line / Col recomputed from the text, and the token sequence must equal the reference scanner's (longest registered symbolic operator, whole-word identifier-like operators and true / false, . and ? never split out of a longer operator, each literal form one token); error iff the reference errors.",
         "Trusted: mc/ref/lex.go (no regexp). The literal grammars of lexer/factory.go are taken as the documented lexical grammar.",
         "DESIGN.md §4 C09"),

 "C18": ("enum", "model_checking",
         "bounded-exhaustive enumeration of all value pairs per type × all 8 map-iteration seeds, executed on the real equality / rendering / key / set functions",
         "For 23 types (numbers across the 2^53 and int64 boundaries, strings needing escapes, booleans, instants incl. another zone and sub-second parts, lists, maps built in every insertion order, 3-field objects in all 6 field orders, nested objects, lists of objects, optionals) every ordered pair of values is probed, as raw values, as converted host data and (where the language has a literal form) as literals of one program on two back ends, under each of the 8 map-iteration start offsets the runtime can choose: the language's == (on singleton lists), equal String(), equal Key() / isset / get on a map keyed by one of them, and |union| / |intersect| / |diff| of singleton lists must all coincide with structural equality (numbers in the sets are identical or further apart than the tolerance); equality is reflexive on independently built copies and symmetric; the rendering is the same for every seed.",
         "Trusted: mc/ref LangEqual (structural equality by field name). The runtime overlay makes the iteration start offset an input (seeds 1..8 = every order for maps of <= 8 entries).",
         "DESIGN.md §4 C18"),
 "C20": ("enum", "model_checking",
         "bounded-exhaustive enumeration of criteria trees and adversarial operands; the emitted WHERE text is re-read by an independent SQL boolean-expression reader",
         "All criteria trees of depth <= 2 over binary AND / OR, unary NOT and 15 leaf conditions (incl. an instant bound at run time with a sub-second part and IN lists that mix bound names and literals in both orders) (thorough: also depth 3 over 3 leaves), and every adversarial string / number operand in every condition that takes it inside four tree contexts: each criteria value (operand slices built with spare capacity) is lowered twice and each result rendered twice, all four texts must be identical; the text produced by ext.CompileToSql is tokenised and parsed with standard SQL precedence; the tree read back must equal the input modulo flattening of AND / OR, bound names must appear as their run-time values and unbound names as back-quoted columns, each string operand must be exactly one quoted literal that decodes to the operand, numbers must be plain numeric literals that read back as the same double, booleans 1 / 0, instants from_unixtime(n).",
         "Trusted: mc/ref/sql.go (tokenizer + precedence reader). Assumes MySQL-style backslash escapes inside double-quoted literals.",
         "DESIGN.md §4 C20"),

 "C10": ("enum", "model_checking",
         "bounded-exhaustive enumeration of sugared terms (every node kind in every operand and callee position) parsed and desugared by the real code, compared with an independently computed core form; sugared vs explicit evaluation",
         "Structural half: all terms of depth <= 2 over 3 atoms (a variable, a number, a boolean literal) and 18 constructors (infix, prefix, ?:, method calls, parentheses, calls, calls of arbitrary callee expressions, subscript, member, literals) are rendered, parsed and desugared: the result must equal the core form computed on the harness's own term (op(x,y), op(x), if(c,a,b), f(o,args), e), contain no sugar node, be a fixpoint of Desugar (spans included), carry the operator columns in source order, and leave the parsed tree (deep snapshot) untouched. Semantic half: every well-typed program of the small-alphabet and effects corpora is evaluated from sugared source and from the explicit core tree built with the ast constructors through Expr.CompileExpr — same outcome, value and host-call trace — plus paired source texts, each also on an engine built with UseBuiltIn(false) and the same operators / functions registered by hand, and on engines with an additional identity translator registered before / after first use; sugar written without parentheses inside list / map / object literals, call arguments and subscripts; and a callee family (6 x 6 sugar forms inside 8 shapes of computed callees and their arguments).",
         "Trusted: the term renderer and coreString (mc/props/c10.go). Known finding: Desugar is not idempotent on (o.m)(x).",
         "DESIGN.md §4 C10"),
 "C11": ("enum", "model_checking",
         "every program of the C03 corpus compiled through the read-only bytecode export hook and checked by an independent abstract interpreter (typed stack-depth verifier) over the instruction set",
         "The code bytes, constant pool and thunk bodies (recursively) of every accepted program of the C03 corpus — incl. the size families, branches longer than 255 / 65535 bytes, 255 / 256 arguments, dynamic calls — must decode completely into known instructions; constant / size / argc operands must be in range and of the right kind (value, name, type of the right constructor, function whose laziness matches the call opcode and whose arity matches argc, thunk); every jump must go strictly forward to an instruction boundary inside the code; the typed abstract stack must agree on every path, never underflow, fit each opcode's operand kinds and hold exactly one value of the expected type at the final return. Forward-only jumps over finite code imply at most one step per emitted instruction.",
         "Trusted: mc/ref/bc.go (operand layout and stack effect per mnemonic, written from vm/opcode.go). Opcode numbers are resolved by name through the hook.",
         "DESIGN.md §4 C11"),
 "C12": ("enum", "model_checking",
         "bounded-exhaustive enumeration of token sequences, corpus edits, nesting families and host-value shapes through every public entry point under a deterministic step budget",
         "All token sequences of <= 4 (thorough 5) tokens over a 26-token alphabet, every single (thorough: double) token insertion / deletion / duplication / replacement of a 24-program corpus, 20 nesting families to depth 64 (thorough 200) and 66 host values (nil, typed nil, pointer to nil pointer, nil interfaces inside containers, cyclic pointers, recursive types, unsupported kinds) go through Eval, Compile + Callable and Debug inside isolated worker processes; chains and nests of 2…40 operands of every lazy construct with counting tracers must perform exactly the reference evaluator's number of host-function invocations on four back ends (evaluation work is counted, never timed); a conditional placed after more than 64 KiB of code must be refused or evaluated, never loop: a panic that escapes the API or a dead worker is a violation, and the work counted by the build-tag Step hooks (lexer tokens, parser expr calls, checker nodes, unify calls, conversion calls) must stay below 200·(n+2)²+2000 for an input of n runes — a deterministic abort, never a wall-clock oracle.",
         "Polynomial is checked as quadratic in counted steps; evaluation cost is covered by C11 (forward-only bytecode). Stack exhaustion beyond nesting depth 200 is not explored.",
         "DESIGN.md §4 C12"),

 "C07": ("enum", "model_checking",
         "bounded-exhaustive enumeration of (compile-time environment, run-time environment) pairs, run-time mutations and invocation histories, each executed on the real Callable and judged by structural type equality plus the reference evaluator",
         "All pairs of 19 values of 15 types for the binding x, the run-time mutations {x missing, y missing, extra name, y of another type, empty}, 7 representation pairs (raw / host map / host struct in every meaningful combination), 6 programs containing tracers, under the 8 map-iteration seeds, plus every history of <= 3 invocations of one Callable over five environment variants (incl. the same Go type with a nil pointer where the compile-time sample had a value, and the same rejected environment object passed again; also over ONE raw environment object rebound in place between invocations), plus 13 run-time values of the sample's Go type whose nested elements differ in type, each between two good calls on 4 back ends under 8 seeds: the call must be accepted iff every compile-time name is present with a structurally equal type; a rejection must return an error with an EMPTY host-call trace and no panic; an acceptance must produce the reference evaluator's value and trace; each invocation is independent of the history before it.",
         "Trusted: structural type equality on descriptions (gen.Equal), mc/ref evaluator; host types are those the reference derives from the description (C15 checks the conversion itself).",
         "DESIGN.md §4 C07"),
 "C13": ("enum", "model_checking",
         "explicit enumeration of ALL API histories up to the depth bound on one engine with shared environment objects, under all 8 map-iteration seeds, with a differential oracle against a fresh engine",
         "Every history of <= 4 (thorough 5) operations over a 30-operation menu (two operations that compile ONE parsed tree through Expr.CompileExpr against differently typed environments, two that compile against host structs of one Go type whose pointer field is nil / set — in histories of <= 3 operations; compile e0..e4 against one shared *types.Env; invoke compiled expression k with one shared *val.Env, a host struct or a host map; Debug; compile / invoke an expression that calls function values chosen at run time; compile and invoke on a SECOND engine with the same shared environments) is executed on one engine under each of the 8 map-iteration seeds; the last operation's result, rendering (String() and string(x)), error class and captured standard output must equal the same operation on a brand-new engine with brand-new environments under seed 1; standard output must be empty unless the expression calls print; host values must deep-equal their snapshot. The expressions print, render multi-entry maps (also with keys that differ only in case) / objects, apply floor / ceil / round / abs / max to variables that are read again, call union / intersect / diff with several survivors, reach one value through two paths, and fail. A 300-compilation history checks that later compilations are unaffected.",
         "No state merging (a state is its history), so no canonicalisation argument is needed. The runtime overlay owns map-iteration order; stdout is captured through a pipe.",
         "DESIGN.md §4 C13"),
 "C14": ("sched", "model_checking",
         "stateless model checking: a hand-written cooperative scheduler runs the real goroutines and a DFS enumerates all interleavings of the synchronisation points (hand-placed hooks plus EVERY sync / sync/atomic operation of the repository, routed through scheduling-point shims by a build overlay regenerated from the current sources) with iterative preemption bounding; sync.Pool is shimmed as a deterministic free list whose Get / Put are scheduling points and the harness's host functions yield to the scheduler, so threads are also interleaved inside an evaluation at host-call boundaries; lock ownership and deadlock are modelled; vector-clock race detection over hooked accesses; separate free-running go test -race pass of the same thread bodies",
         "17 scenarios of 2–3 threads (one parsed tree compiled by three engines against differently typed environments; an invocation failing inside a lazily evaluated argument followed by overlapping invocations; independent engines compiling polymorphic calls; one initialised engine compiling 2–3 expressions; one Callable invoked by three threads on each of the four back ends and with a shared *val.Env; compile while invoking; strtotime on an uncached zone; programs that together call every built-in; inputs no earlier execution has seen; Debug and Eval). Every interleaving of the synchronisation operations (every atomic operation and every lock / unlock the code performs: today the type-variable counter and the zone-cache mutex) is executed for preemption bounds 0,1,2,… until a larger bound adds no schedule or the per-scenario schedule cap is hit (reported per scenario); on each execution a vector-clock detector checks every hooked read / write (happens-before from spawn, release→acquire and atomics only) and each thread's outcome must equal its outcome when run alone; a schedule is replayed twice to prove determinism. Then the same bodies run free on plain goroutines under the Go race detector, which sees every memory access, hooked or not.",
         "CHESS reduction (scheduling at synchronisation operations only is complete when the program is data-race free, which both detectors check). Sequential consistency assumed; the C library behind strtotime is opaque. Bounds completed are in the evidence file.",
         "DESIGN.md §4 C14"),
 "C15": ("enum", "model_checking",
         "bounded-exhaustive enumeration of Go types built by reflection × value domains, converted by the real conv package and compared with a reference conversion that works on descriptions (no reflection)",
         "All Go types of depth <= 3 over 13 leaf kinds and the pointer / slice / array / map / struct constructors (fields untagged, renamed, optional, duplicate names), with all values over 2–3 element leaf domains, nil / non-nil pointers, nil / empty / one / two-element containers and nil / non-nil interfaces: ValOf must succeed iff the description is convertible; the value must be well formed, of the expected type, equal in contents, and ValOf(v).Type ≡ TypeOf(v); TypeEnvOf / ValEnvOf must agree field by field; all stable values (no interface part, nil-able parts non-nil or declared optional) of one Go type must get one type, and an expression compiled against one must accept every other; bad data must be an error, never a panic; struct tags written with blanks / mixed case; a number below 1…400 levels of each container kind converts iff the nesting is <= 100.",
         "Trusted: the Go-shape grammar and reference conversion (mc/props/c15shape.go). Nested value domains are bounded (first / middle / last picks; two-element containers take one representative of every distinct element type). Pointer map keys are outside the alphabet.",
         "DESIGN.md §4 C15"),
 "C16": ("enum", "model_checking",
         "bounded-exhaustive enumeration: every documented overload × every parameter position with an optional argument, direct uses of optionals, mixed-presence host containers, and all well-typed programs over host structs with nil / non-nil fields, judged by the reference checker / evaluator",
         "For every documented overload and every parameter position, the call with maybe[T] in that position (as variable present / absent, object field, list element, map value) must be accepted exactly when the reference checker accepts it (only a bare type variable or get(maybe[a], a)); 112 direct uses (member, subscript, operators, conditions, nesting, right and wrong defaults; maps / lists / objects of optionals mixed with the same containers of plain values) likewise; containers of structs whose pointer field is present in some elements and absent in others must be refused, and one Callable invoked with a present and then an absent pointer of the same Go type must reject the second call; all well-typed programs up to depth 2 over 16 host environments with nil / non-nil, tagged / untagged pointer, slice and map fields (4 of them also declared with blank-padded, mixed-case struct tags) must evaluate to the reference value (get yields payload or default) and never fail because of an absence, on four back ends.",
         "Trusted: mc/ref checker and evaluator; the C15 reference conversion for the container family.",
         "DESIGN.md §4 C16"),
 "C19": ("enum", "model_checking",
         "bounded-exhaustive enumeration of single-line programs evaluated in debug mode; the record is read through the build-tag hook and compared with the reference evaluator's list of evaluated terms and their columns",
         "All accepted programs of depth <= 2 (one nested operand) over the debug alphabet (ASCII / non-ASCII identifiers and strings, multi-line renderings, members, subscripts, method calls, list functions over a recorded list variable, operators, conditionals and short-circuit operators with unevaluated branches, failing accesses) in raw and host-map environments, plus 23 three-level programs: Debug must return normal evaluation's value / failure; the record (before rendering) must equal the reference's (value, column) list for exactly the evaluated variable / call / member / subscript terms in completion order, each at its own term's column; rendering must not fail, must keep the source as first line and show every recorded value at its column; the same record, cleared, must give the same entries on a second and third run; white space before the program must shift every column by its width; yae.Debug's report must equal rendering that record.",
         "Trusted: the column-tracking renderer (gen.Term.OwnCols) and the reference evaluator's completion order. Functions that evaluate one operand twice are excluded.",
         "DESIGN.md §4 C19"),
 "C17": ("enum", "model_checking",
         "bounded-exhaustive enumeration of type pairs executed on the real Unify/Equals, judged against an independent matcher and algebraic laws",
         "Every ordered pair of types up to depth 1 (width 2) over the full constructor alphabet, every same-constructor pair of a reduced depth-2 set, every pair of 39 object types whose field names run into one another ({ab,c} / {a,bc} / {abc} / {a,b,c} …, bare, in lists and as map values), and every pair of argument 2-tuples (tree-shaped and pointer-shared) is run through the real types.Equals / types.Unify in both orders; Equals must coincide with structural identity by field name and give the same answer when repeated on the same two objects, and a successful Unify must yield an acyclic substitution that makes both sides equal (relaxed only at the documented ⊥/⊤ positions) and must succeed exactly when the reference one-way matcher finds an instantiation for pattern-vs-ground pairs. Exhaustive within that bound; nothing is sampled.",
         "Trusted: the harness's own structural equality / matcher (70 lines, mc/props/c17.go), the reading of real types through exported fields. Outside the bound: depth>=3, width>=3, more than two variables.",
         "DESIGN.md §4 C17"),
}

NOT_YET = "check not built yet (work in progress in this session); no claim is made"
ALL = ["C%02d" % i for i in range(1, 21)]

def main():
    checks = []
    for pid in ALL:
        if pid not in CHECKS:
            continue
        eng, cat, tech, text, note, ref = CHECKS[pid]
        checks.append({
            "property_id": pid,
            "quick_cmd": f"bin/check {pid} quick",
            "thorough_cmd": f"bin/check {pid} thorough",
            "evidence_file": f"/verif/evidence/{pid}.json",
            "replay_cmd_template": "build/yaemc replay {path}",
            "engine": eng,
            "level_claimed": {"category": cat, "text": text, "design_ref": ref},
            "level_note": note,
            "technique": tech,
        })
    na = [{"property_id": p, "reason": NOT_YET} for p in ALL if p not in CHECKS]
    m = {
        "version": 1,
        "setup_cmd": "bin/setup",
        "hooks": {
            "guard": "verif",
            "enable": "go build -tags verif -overlay build/overlay.json (module verif/mc, replace github.com/goghcrow/yae => /repo); bin/build does it before every check",
            "baseline_off_cmd": "cd /repo && GOFLAGS=-mod=mod GOPROXY=off GOSUMDB=off GOTOOLCHAIN=local go test -json -vet=off -count=1 -timeout 25m ./...",
            "source_commits": hook_commits(),
            "add_only": True,
        },
        "engines": [
            {"name": "enum", "path": "mc/engine", "serves_properties": [p for p in ALL if p in CHECKS and CHECKS[p][0] == "enum"],
             "kind_free_text": "bounded-exhaustive enumerator: deterministic odometer over an explicit alphabet, hash-partitioned over 16 worker processes, every case executed on the real code and compared with a reference model; crash attribution by mmap cursor, isolated re-runs until 3 reproduce"},
            {"name": "sched", "path": "mc/sched", "serves_properties": [p for p in ALL if p in CHECKS and CHECKS[p][0] == "sched"],
             "kind_free_text": "controlled cooperative scheduler + DFS over all interleavings of hooked points with iterative preemption bounding; separate free-running -race pass over the same thread bodies"},
            {"name": "hist", "path": "mc/hist", "serves_properties": [p for p in ALL if p in CHECKS and CHECKS[p][0] == "hist"],
             "kind_free_text": "explicit-state BFS over API histories (replay-to-successor on fresh engines, canonical residual state), differential oracle against a fresh engine"},
        ],
        "checks": checks,
        "not_applicable": na,
        "notes": "All checks: bin/check <id> <tier> rebuilds build/yaemc from /repo's working tree (-tags verif, runtime map-iteration overlay), explores, rewrites evidence/<id>.json, prints KNOWN-FINDING / VIOLATION lines. KNOWN_FINDINGS.json lists open and fixed findings.",
    }
    m["engines"] = [e for e in m["engines"] if e["serves_properties"]]
    json.dump(m, open(os.path.join(ROOT, "MANIFEST.json"), "w"), indent=1, ensure_ascii=False)
    print("MANIFEST.json:", len(checks), "checks,", len(na), "not_applicable")

if __name__ == "__main__":
    main()
