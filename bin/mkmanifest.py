#!/usr/bin/env python3
"""Regenerates /verif/MANIFEST.json from the table below (kept in one place so it stays valid)."""
import json, os, subprocess
ROOT = os.path.dirname(os.path.dirname(os.path.abspath(__file__)))

def hook_commits():
    try:
        out = subprocess.check_output(["git", "-C", "/repo", "log", "--format=%H %s"], text=True)
        return [l.split()[0] for l in out.splitlines() if " verif hooks" in l or l.split(" ", 1)[1].startswith("verif hooks")]
    except Exception:
        return []

# id -> (engine, category, technique, level text, level note, design ref)
CHECKS = {
 "C17": ("enum", "model_checking",
         "bounded-exhaustive enumeration of type pairs executed on the real Unify/Equals, judged against an independent matcher and algebraic laws",
         "Every ordered pair of types up to depth 1 (width 2) over the full constructor alphabet, every same-constructor pair of a reduced depth-2 set, and every pair of argument 2-tuples (tree-shaped and pointer-shared) is run through the real types.Equals / types.Unify in both orders; Equals must coincide with structural identity by field name, and a successful Unify must yield an acyclic substitution that makes both sides equal (relaxed only at the documented ⊥/⊤ positions) and must succeed exactly when the reference one-way matcher finds an instantiation for pattern-vs-ground pairs. Exhaustive within that bound; nothing is sampled.",
         "Trusted: the harness's own structural equality / matcher (70 lines, mc/props/c17.go), the reading of real types through exported fields. Outside the bound: depth>=3, width>=3, more than two variables.",
         "DESIGN.md §4 C17"),
}

NOT_YET = "check not built yet (work in progress in this session); no claim is made"
ALL = ["C%02d" % i for i in range(1, 21)]

def main():
    checks = []
    for pid in ALL:
        if pid not in CHECKS:
            continue
        eng, cat, tech, text, note, ref = CHECKS[pid]
        checks.append({
            "property_id": pid,
            "quick_cmd": f"bin/check {pid} quick",
            "thorough_cmd": f"bin/check {pid} thorough",
            "evidence_file": f"/verif/evidence/{pid}.json",
            "replay_cmd_template": "build/yaemc replay {path}",
            "engine": eng,
            "level_claimed": {"category": cat, "text": text, "design_ref": ref},
            "level_note": note,
            "technique": tech,
        })
    na = [{"property_id": p, "reason": NOT_YET} for p in ALL if p not in CHECKS]
    m = {
        "version": 1,
        "setup_cmd": "bin/setup",
        "hooks": {
            "guard": "verif",
            "enable": "go build -tags verif -overlay build/overlay.json (module verif/mc, replace github.com/goghcrow/yae => /repo); bin/build does it before every check",
            "baseline_off_cmd": "cd /repo && GOFLAGS=-mod=mod GOPROXY=off GOSUMDB=off GOTOOLCHAIN=local go test -json -vet=off -count=1 -timeout 25m ./...",
            "source_commits": hook_commits(),
            "add_only": True,
        },
        "engines": [
            {"name": "enum", "path": "mc/engine", "serves_properties": [p for p in ALL if p in CHECKS and CHECKS[p][0] == "enum"],
             "kind_free_text": "bounded-exhaustive enumerator: deterministic odometer over an explicit alphabet, hash-partitioned over 16 worker processes, every case executed on the real code and compared with a reference model; crash attribution by mmap cursor, isolated 5x re-run"},
            {"name": "sched", "path": "mc/sched", "serves_properties": [p for p in ALL if p in CHECKS and CHECKS[p][0] == "sched"],
             "kind_free_text": "controlled cooperative scheduler + DFS over all interleavings of hooked points with iterative preemption bounding; separate free-running -race pass over the same thread bodies"},
            {"name": "hist", "path": "mc/hist", "serves_properties": [p for p in ALL if p in CHECKS and CHECKS[p][0] == "hist"],
             "kind_free_text": "explicit-state BFS over API histories (replay-to-successor on fresh engines, canonical residual state), differential oracle against a fresh engine"},
        ],
        "checks": checks,
        "not_applicable": na,
        "notes": "All checks: bin/check <id> <tier> rebuilds build/yaemc from /repo's working tree (-tags verif, runtime map-iteration overlay), explores, rewrites evidence/<id>.json, prints KNOWN-FINDING / VIOLATION lines. KNOWN_FINDINGS.json lists open and fixed findings.",
    }
    m["engines"] = [e for e in m["engines"] if e["serves_properties"]]
    json.dump(m, open(os.path.join(ROOT, "MANIFEST.json"), "w"), indent=1, ensure_ascii=False)
    print("MANIFEST.json:", len(checks), "checks,", len(na), "not_applicable")

if __name__ == "__main__":
    main()
