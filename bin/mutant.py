#!/usr/bin/env python3
"""Seeded-change tooling.

  mutant.py verify <worktree> <x>         confirm in the scratch worktree: demo passes on the clean tree,
                                           patch applies, builds, the full suite passes, demo fails with it
  mutant.py try <patch.diff> <prop>...     apply to /repo, run bin/check <prop> quick for each, undo
  mutant.py keep <worktree> <x> <id> <prop>...   verify + try + store under /verif/seeded/<id>/
"""
import glob, json, os, re, shutil, subprocess, sys, time

ENV = dict(os.environ, GOFLAGS="-mod=mod", GOPROXY="off", GOSUMDB="off", GOTOOLCHAIN="local")
VERIF = os.path.dirname(os.path.dirname(os.path.abspath(__file__)))


def sh(cmd, cwd=None, timeout=3600):
    p = subprocess.run(cmd, shell=True, cwd=cwd, env=ENV, stdout=subprocess.PIPE, stderr=subprocess.STDOUT, text=True, timeout=timeout)
    return p.returncode, p.stdout


def verify(wt, x):
    out = os.path.join(wt, "_out", x)
    patch = os.path.join(out, "patch.diff")
    demos = [f for f in glob.glob(os.path.join(out, "*_test.go"))]
    rep = {"worktree": wt, "variant": x, "ok": False, "steps": []}
    if not demos:
        rep["steps"].append("no *_test.go demo found")
        return rep
    names = []
    pkg = "test"
    for d in demos:
        src = open(d).read()
        names += re.findall(r"^func (Test\w+)\(", src, re.M)
        m = re.search(r"^package (\w+)", src, re.M)
        if m and m.group(1) not in ("test", "test_test"):
            pkg = None
    rc, o = sh("git checkout -- . && git status --short", wt)
    dirty = [l for l in o.splitlines() if not l.startswith("?? _out")]
    if dirty:
        rep["steps"].append("worktree not clean: %s" % dirty)
        return rep
    if pkg is None:
        rep["steps"].append("demo is not in package test; verify by hand")
        return rep
    runre = "^(" + "|".join(names) + ")$"

    def run_demo():
        for d in demos:
            shutil.copy(d, os.path.join(wt, "test", "zz_seed_" + os.path.basename(d)))
        rc, o = sh("go test -vet=off -count=1 -run '%s' ./test/" % runre, wt)
        for d in demos:
            os.remove(os.path.join(wt, "test", "zz_seed_" + os.path.basename(d)))
        return rc, o

    rc, o = run_demo()
    rep["steps"].append("demo on clean tree: rc=%d" % rc)
    if rc != 0:
        rep["steps"].append(o[-1500:])
        return rep
    rc, o = sh("git apply --check %s && git apply %s" % (patch, patch), wt)
    if rc != 0:
        rep["steps"].append("patch does not apply: " + o[-500:])
        return rep
    try:
        rc, o = sh("go build ./... && go test -vet=off -count=1 ./...", wt)
        rep["steps"].append("build + full suite with patch: rc=%d" % rc)
        if rc != 0:
            rep["steps"].append(o[-1500:])
            return rep
        rc, o = run_demo()
        rep["steps"].append("demo with patch: rc=%d" % rc)
        if rc == 0:
            rep["steps"].append("demo does not fail with the patch")
            return rep
        rep["demo_failure"] = "\n".join([l for l in o.splitlines() if "FAIL" in l or "---" in l or "panic" in l][:8])
        rep["ok"] = True
    finally:
        sh("git checkout -- . && git clean -fdq -- test", wt)
    return rep


def try_patch(patch, props):
    res = {}
    rc, o = sh("git status --short", "/repo")
    if o.strip():
        raise SystemExit("/repo is dirty: " + o)
    rc, o = sh("git apply --check %s && git apply %s" % (patch, patch), "/repo")
    if rc != 0:
        return {"error": "patch does not apply to /repo: " + o[-400:]}
    try:
        for p in props:
            t0 = time.time()
            rc, o = sh("bin/check %s quick" % p, VERIF)
            viol = [l for l in o.splitlines() if l.startswith("VIOLATION")]
            detail = [l.strip()[:300] for l in o.splitlines() if l.startswith("  [")][:3]
            res[p] = {"exit": rc, "violation_lines": len(viol), "first": detail, "wall_s": round(time.time() - t0, 1)}
    finally:
        sh("git checkout -- . && git clean -fdq", "/repo")
    return res


def main():
    cmd = sys.argv[1]
    if cmd == "verify":
        print(json.dumps(verify(sys.argv[2], sys.argv[3]), indent=1))
    elif cmd == "try":
        print(json.dumps(try_patch(sys.argv[2], sys.argv[3:]), indent=1, ensure_ascii=False))
    elif cmd == "keep":
        wt, x, sid, props = sys.argv[2], sys.argv[3], sys.argv[4], sys.argv[5:]
        v = verify(wt, x)
        print(json.dumps(v, indent=1))
        if not v["ok"]:
            raise SystemExit("not confirmed; not kept")
        src = os.path.join(wt, "_out", x)
        dst = os.path.join(VERIF, "seeded", sid)
        os.makedirs(dst, exist_ok=True)
        for f in os.listdir(src):
            if f != "meta.json":
                shutil.copy(os.path.join(src, f), os.path.join(dst, f))
        agent_meta = {}
        try:
            agent_meta = json.load(open(os.path.join(src, "meta.json")))
        except Exception:
            pass
        t = try_patch(os.path.join(dst, "patch.diff"), props)
        print(json.dumps(t, indent=1, ensure_ascii=False))
        meta = {
            "id": sid,
            "breaks_property": agent_meta.get("property", props[0] if props else ""),
            "summary": agent_meta.get("summary", ""),
            "needs_to_manifest": agent_meta.get("needs", ""),
            "files": agent_meta.get("files", []),
            "author": "independent sub-agent given only the property text and a scratch worktree",
            "confirmed_by_me": v["steps"],
            "demo_failure_with_patch": v.get("demo_failure", ""),
            "checks_run_against_it": t,
            "detected_by": [p for p, r in t.items() if isinstance(r, dict) and r.get("exit") == 1],
            "how_to_reproduce": "git -C /repo apply /verif/seeded/%s/patch.diff && bin/check <prop> quick ; git -C /repo checkout -- ." % sid,
        }
        json.dump(meta, open(os.path.join(dst, "meta.json"), "w"), indent=1, ensure_ascii=False)


if __name__ == "__main__":
    main()
