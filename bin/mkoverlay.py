#!/usr/bin/env python3
"""Regenerate build/overlay.json from the repository's CURRENT working tree.

  * runtime/map.go            -> build/rt/map.go (map-iteration seed; written by bin/setup)
  * every non-test .go file of the repository that imports "sync" or "sync/atomic" is replaced by
    a copy whose import points at the scheduling-point shims (mc/shim/vsync, mc/shim/vatomic),
    which the overlay maps below <repo>/verifhook/ (they exist only in the overlay).

usage: mkoverlay.py <repo> <verif-root> <goroot>
"""
import json, os, re, shutil, sys

repo, root, goroot = sys.argv[1], sys.argv[2], sys.argv[3]
ov = {os.path.join(goroot, "src/runtime/map.go"): os.path.join(root, "build/rt/map.go")}
out = os.path.join(root, "build/syncov")
shutil.rmtree(out, ignore_errors=True)
mod = "github.com/goghcrow/yae"
imp = re.compile(r'^(\s*)(?:(\w+)\s+)?"(sync|sync/atomic)"\s*$', re.M)


def exported(shim):
    src = open(os.path.join(root, "mc/shim", shim, shim + ".go")).read()
    return set(re.findall(r"^func ([A-Z]\w*)\(", src, re.M)) | set(re.findall(r"^type ([A-Z]\w*)", src, re.M))


SUPPORTED = {"sync": exported("vsync"), "sync/atomic": exported("vatomic")}
n = 0
for dp, dns, fns in os.walk(repo):
    dns[:] = [d for d in dns if not d.startswith(".") and d not in ("verifhook", "testdata", "_out")]
    for fn in fns:
        if not fn.endswith(".go") or fn.endswith("_test.go"):
            continue
        p = os.path.join(dp, fn)
        try:
            s = open(p, encoding="utf-8").read()
        except Exception:
            continue
        head = s.split("\nfunc ", 1)[0]
        if not imp.search(head):
            continue

        def sub(m):
            name = m.group(2) or ("atomic" if m.group(3) == "sync/atomic" else "sync")
            shim = "vatomic" if m.group(3) == "sync/atomic" else "vsync"
            return '%s%s "%s/verifhook/%s"' % (m.group(1), name, mod, shim)

        # only route a file through the shims when every name it uses from the package is shimmed;
        # otherwise it keeps the real package (and relies on the hand-placed verifhook points)
        usable = True
        for m in imp.finditer(head):
            name = m.group(2) or ("atomic" if m.group(3) == "sync/atomic" else "sync")
            used = set(re.findall(r"\b%s\.([A-Z]\w*)" % re.escape(name), s))
            if not used <= SUPPORTED[m.group(3)]:
                print("overlay: %s uses %s.%s, not shimmed; file left as is" % (p, name, sorted(used - SUPPORTED[m.group(3)])), file=sys.stderr)
                usable = False
        if not usable:
            continue
        new_head = imp.sub(sub, head)
        s2 = new_head + s[len(head):]
        dst = os.path.join(out, os.path.relpath(p, repo))
        os.makedirs(os.path.dirname(dst), exist_ok=True)
        open(dst, "w", encoding="utf-8").write(s2)
        ov[p] = dst
        n += 1
for shim in ("vatomic", "vsync"):
    ov[os.path.join(repo, "verifhook", shim, shim + ".go")] = os.path.join(root, "mc/shim", shim, shim + ".go")
json.dump({"Replace": ov}, open(os.path.join(root, "build/overlay.json"), "w"), indent=1)
print("overlay: %d source file(s) routed through the sync shims" % n, file=sys.stderr)
