#!/usr/bin/env python3
"""Regenerates KNOWN_FINDINGS.json. Edited by hand when a finding is added; never at check run time."""
import json, os, subprocess
ROOT = os.path.dirname(os.path.dirname(os.path.abspath(__file__)))
log = subprocess.check_output(["git", "-C", "/repo", "log", "--format=%h %s"], text=True).splitlines()
def commit(prefix):
    for l in log:
        h, s = l.split(" ", 1)
        if s.startswith(prefix):
            return h
    raise SystemExit("no commit: " + prefix)

FIXED = [
 # (properties, commit subject prefix, class the check reports if it returns, what failed)
 (["C08"], "fix: pos.Range returns", "span-mismatch", "every composite node carried the span of its last token: `a + b * c` had span 9-10 (pos.Range returned the end position)"),
 (["C09"], "fix: lex true/false only", "token-mismatch", "`truex` lexed as the tokens `true`,`x` (true/false used the prefix rule)"),
 (["C13"], "fix: union no longer prints", "stdout-not-empty", "union(...) printed its result to standard output"),
 (["C18"], "fix: object rendering sorts", "render-not-canonical", "{c:1,a:2,b:3} rendered {a, c, b}; equal objects rendered differently and were distinct elements for union/intersect/diff"),
 (["C18", "C04", "C20"], "fix: numbers beyond the int64", "number-render-collision", "1e300, 1e301, +Inf rendered / keyed as -9223372036854775808; [1e300:1, 1e301:2] had one entry"),
 (["C18"], "fix: equal instants are the same value", "render-disagrees-with-equality", "the same instant supplied in two zones (or with a monotonic reading) was == but rendered differently, was another map key and another set element"),
 (["C18"], "fix: optionals render their payload type", "render-disagrees-with-equality", "Just({a:1,b:\"x\"}) and Just({b:\"x\",a:1}) rendered Just#{a: num, b: str}(…) and Just#{b: str, a: num}(…): equal values, different text, different set elements"),
 (["C18", "C13"], "fix: a value reached through two paths", "render-shared-structure", "[xs, xs] with an environment variable xs rendered \"[[1, 2], recursive-val list[num]@0x…]\" (run-dependent address) although it == [[1,2],[1,2]]"),
 (["C13"], "fix: string() renders map", "render-depends-on-map-seed", "string([\"a\":1,\"b\":2,\"c\":3]) followed Go map iteration order"),
 (["C02"], "fix: negative list indices", "internal-fault", "get([1,2],-1,0) and [1,2][-1] (also NaN / huge indices) died with a Go runtime index panic"),
 (["C03"], "fix: the VM builds map literals", "backend-value-mismatch", "[\"a\":1,\"a\":2] gave [\"a\":1] on the VM and [\"a\":2] on closure / interp"),
 (["C03", "C02"], "fix: the VM calls lazy function values", "worker-crash", "if(c, lz, lz)(tr(1,1), tr(2,2)) with a lazy function value lz: the VM passed evaluated arguments to the lazy function and the process died with SIGSEGV; closure / interp evaluate it"),
 (["C08"], "fix: a non-associative operator", "accepts-nonassoc-chain", "`a < b < c && d` and `a < b < c ? d : e` were accepted"),
 (["C08"], "fix: right-associative operators", "tree-mismatch", "with ** (7.5, right) and ++ (7, left), `a ** b ++ c` parsed as a ** (b ++ c) (bp - 1 assumed whole-number powers)"),
 (["C12"], "fix: a compiled expression reports", "api-panic", "run-time failures ([1,2][5], 5 % 0, match(\"(\", s)) escaped Eval / Callable as panics"),
 (["C12"], "fix: a pointer to a nil map", "api-panic", "Eval(\"1\", &m) with a nil map m panicked in reflectMap"),
 (["C12"], "fix: list / map literals are parsed without", "work-superquadratic", "[[[1:1]:1]:1]… nested 22 deep (89 bytes) took seconds, doubling per level: the list-or-map backtracking re-parsed the first element"),
 (["C13"], "fix: compiling or invoking does not consume", "env-not-reusable", "a *types.Env / *val.Env could be used once: the second Compile / invocation failed with 'env.parent != nil'"),
 (["C14"], "fix: the fresh type-variable counter", "data-race", "data race on the process-wide type-variable counter when two engines compile polymorphic calls"),
 (["C01", "C07"], "fix: object fields are read by name", "value-type-mismatch", "[{a:1,b:\"x\"},{b:\"y\",a:2}][1].a yielded the string \"y\" at type num; o.a compiled for struct{A;B} read the wrong field of struct{B;A}"),
 (["C05"], "fix: monomorphic overloads are found", "rejects-well-typed", "a mono overload f({a:num,b:str}) was not found for the argument {b:\"x\",a:1} (lookup key is the rendered tuple)"),
 (["C17"], "fix: Unify accepts types that share", "unify-panic-on-shared-acyclic-input", "Unify((listT,listT),(T,T)) with shared pointers panicked 'not support recursive type'"),
]
OPEN = [
 # property, class, detail_regex, key_regex, what
 ("C10", "desugar-not-idempotent-grouped-member-callee", "", "", "Desugar is not idempotent on a call of a parenthesised member: (o.m)(x) desugars to Call{callee: o.m}, which a second Desugar reads as the method-call notation and turns into m(o, x); the core tree has no way to tell 'call the function stored in field m' from 'method notation', so no small repair exists (the facade applies Desugar once, so evaluation is unaffected)"),
 ("C03", "callthread-exec-limit", "", "", "the call-threaded dispatch loop aborts with 'over exec limit' after 1024 instructions (const limit in vm/gen_test.go, which regenerates vm/callthread.go on every test run and may not be edited); the switch loop, closure compiler and interpreter have no such cap"),
]
out = []
for props, prefix, cls, what in FIXED:
    h = commit(prefix)
    for p in props:
        out.append({"property": p, "status": "fixed", "commit": h, "class": cls, "what": what,
                    "line": f"fixed: property={p} {h} {what}"})
for p, cls, dre, kre, what in OPEN:
    out.append({"property": p, "status": "open", "class": cls, "detail_regex": dre, "key_regex": kre, "what": what})
json.dump({"comment": "open entries suppress exactly the matching violation (class + regexes) and are printed as KNOWN-FINDING lines; fixed entries suppress nothing",
           "findings": out}, open(os.path.join(ROOT, "KNOWN_FINDINGS.json"), "w"), indent=1, ensure_ascii=False)
print(len(out), "entries")
